#!/bin/bash
# usage: confirm_seeded.sh <variant dir with patch.diff + demo.py|demo_test.py> <seed id>
# Confirms in a scratch worktree: patch applies, unedited suite passes (532), demo fails with / passes without.
set -u
V=$1; ID=$2
WT=/tmp/confirm_$ID
git -C /repo worktree add -q --detach $WT HEAD || exit 9
cd $WT
res() { echo "$ID $1"; cd /; git -C /repo worktree remove --force $WT; exit 0; }
git apply $V/patch.diff || res "PATCH-DOES-NOT-APPLY"
SUITE=$(PYTHONPATH=$WT/src /venv/bin/python -m pytest -q -p no:cacheprovider 2>/dev/null | tail -1)
if [ -f $V/demo.py ]; then DEMO="/venv/bin/python $V/demo.py"; else DEMO="/venv/bin/python -m pytest -q -p no:cacheprovider $V/demo_test.py"; fi
PYTHONPATH=$WT/src timeout 300 $DEMO >/dev/null 2>&1; WITH=$?
git checkout -q -- . ; git clean -fdq
PYTHONPATH=$WT/src timeout 300 $DEMO >/dev/null 2>&1; WITHOUT=$?
res "suite=[$SUITE] demo_with_patch_exit=$WITH demo_without_exit=$WITHOUT"
