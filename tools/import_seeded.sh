#!/bin/bash
# usage: import_seeded.sh Cxx [srcroot=/tmp/wtout] [tag=v] -> confirms and imports <srcroot>/Cxx/v* into /verif/seeded/Cxx-<tag>N
P=$1
SRC=${2:-/tmp/wtout}
TAG=${3:-v}
for d in $SRC/$P/v*; do
  [ -f $d/patch.diff ] || continue
  v=$(basename $d); ID=$P-${v/v/$TAG}
  LINE=$(/verif/tools/confirm_seeded.sh $d $ID 2>&1 | grep "^$ID")
  echo "$LINE"
  if echo "$LINE" | grep -q "532 passed.*demo_with_patch_exit=[1-9][0-9]* demo_without_exit=0"; then
    mkdir -p /verif/seeded/$ID
    cp $d/patch.diff /verif/seeded/$ID/
    [ -f $d/demo.py ] && cp $d/demo.py /verif/seeded/$ID/
    [ -f $d/demo_test.py ] && cp $d/demo_test.py /verif/seeded/$ID/
    [ -f $d/notes.md ] && cp $d/notes.md /verif/seeded/$ID/
    /venv/bin/python - "$ID" "$P" "$LINE" <<'PY'
import json,sys,re
sid,prop,line=sys.argv[1:4]
notes=open(f'/verif/seeded/{sid}/notes.md').read() if __import__('os').path.exists(f'/verif/seeded/{sid}/notes.md') else ''
files=sorted(set(re.findall(r'^\+\+\+ b/(\S+)',open(f'/verif/seeded/{sid}/patch.diff').read(),re.M)))
json.dump({"id":sid,"breaks_property":prop,"origin":"independent sub-agent given only the property text and a scratch worktree",
 "files_touched":files,"needs_to_manifest":"see notes.md",
 "confirmed":{"how":"tools/confirm_seeded.sh in a scratch worktree of /repo HEAD: git apply; unedited suite; demo with patch; revert; demo without","result":line}},
 open(f'/verif/seeded/{sid}/meta.json','w'),indent=1)
PY
  else echo "  NOT IMPORTED: $ID"; fi
done
