#!/venv/bin/python
"""Writes the seeded-change table (section 8) and probe table (section 9) into DESIGN.md from seeded/MATRIX.json and
probes/MATRIX.json, and records `caught_by` in every seeded meta.json."""
import json, re
from pathlib import Path

V = Path("/verif")
m = json.loads((V / "seeded/MATRIX.json").read_text())
rows = []
for seed in sorted(m):
    d = V / "seeded" / seed
    if not (d / "meta.json").exists():
        continue
    meta = json.loads((d / "meta.json").read_text())
    r = m[seed]
    hit = {p: v["rules"] for p, v in r.items() if isinstance(v, dict) and v.get("exit") == 1}
    und = [p for p, v in r.items() if isinstance(v, dict) and v.get("exit") == 2]
    meta["caught_by"] = sorted(hit)
    (d / "meta.json").write_text(json.dumps(meta, indent=1))
    notes = (d / "notes.md").read_text() if (d / "notes.md").exists() else ""
    first = ""
    for line in notes.splitlines():
        line = line.strip(" #*-")
        if len(line) > 25:
            first = line[:150]
            break
    files = ", ".join(Path(f).name for f in meta.get("files_touched", []))
    caught = "; ".join(f"{p}: {', '.join(sorted(set(rs)))}" for p, rs in sorted(hit.items())) or "**not caught**"
    rows.append(f"| {seed} | {files} | {first} | {caught}{' (undecided: ' + ','.join(und) + ')' if und else ''} |")
table = "| seed | file(s) | change (first line of notes.md) | caught by (property: rules) |\n|---|---|---|---|\n" + "\n".join(rows)
n_caught = sum(1 for r in rows if "**not caught**" not in r)
text = f"{len(rows)} confirmed seeded changes, {n_caught} reported by at least one check (exit 1 with a VIOLATION line naming the construct), " \
       f"{len(rows) - n_caught} not reported.\n\n" + table
design = (V / "DESIGN.md").read_text()
design = re.sub(r"<!-- SEEDS:BEGIN -->.*<!-- SEEDS:END -->", lambda _m: "<!-- SEEDS:BEGIN -->\n" + text + "\n<!-- SEEDS:END -->", design, flags=re.S)
pm = V / "probes/MATRIX.json"
if pm.exists():
    pmx = json.loads(pm.read_text())
    prow = []
    for probe in sorted(pmx):
        r = pmx[probe]
        if "error" in r:
            prow.append(f"| {probe} | patch does not apply | |")
            continue
        alarms = [f"{p}({','.join(v['rules'])})" for p, v in r.items() if v["exit"] == 1]
        und = [p for p, v in r.items() if v["exit"] == 2]
        notes = (V / "probes" / probe / "notes.md").read_text() if (V / "probes" / probe / "notes.md").exists() else ""
        first = next((l.strip(" #*-")[:120] for l in notes.splitlines() if len(l.strip(" #*-")) > 25), "")
        prow.append(f"| {probe} | {first} | {'silent (all 20 exit 0)' if not alarms and not und else ('ALARM ' + ' '.join(alarms) if alarms else '') + (' undecided: ' + ','.join(und) if und else '')} |")
    ptext = f"{len(prow)} behaviour-preserving refactorings (each passes the unedited suite).\n\n| probe | refactoring | result |\n|---|---|---|\n" + "\n".join(prow)
    design = re.sub(r"<!-- PROBES:BEGIN -->.*<!-- PROBES:END -->", lambda _m: "<!-- PROBES:BEGIN -->\n" + ptext + "\n<!-- PROBES:END -->", design, flags=re.S)
(V / "DESIGN.md").write_text(design)
print(n_caught, "of", len(rows))
