#!/bin/bash
# usage: run_all.sh [quick|thorough]  - runs every built check on /repo and prints one line per property
T=${1:-quick}
cd /verif
for f in vstat/rules/c[0-9][0-9].py; do
  p=$(basename $f .py | tr a-z A-Z)
  s=$(date +%s.%N)
  out=$(/venv/bin/python -m vstat $p --tier $T 2>&1); rc=$?
  e=$(date +%s.%N)
  printf "%s exit=%d %.1fs %s\n" $p $rc $(echo "$e - $s" | bc) "$(echo "$out" | grep -c -E 'VIOLATION|ANALYSIS-ERROR|CHECKER-WEAKNESS') alarms"
  [ $rc -ne 0 ] && echo "$out" | grep -E "VIOLATION|ANALYSIS-ERROR|^  C" | head -5
done
