#!/venv/bin/python
"""Run the built checks against every seeded variant (each in its own scratch worktree, in parallel) and print
which properties report a VIOLATION.  usage: seed_matrix.py [seed-id-prefix ...]   (writes seeded/MATRIX.json)"""
import json, os, shutil, subprocess, sys, tempfile
from concurrent.futures import ThreadPoolExecutor
from pathlib import Path

VERIF = Path("/verif")
SEED_DIR = os.environ.get("SEED_DIR", "seeded")
seeds = sorted(p.name for p in (VERIF / SEED_DIR).iterdir() if (p / "patch.diff").exists())
if len(sys.argv) > 1:
    seeds = [s for s in seeds if any(s.startswith(a) for a in sys.argv[1:])]
built = sorted(p.stem.upper() for p in (VERIF / "vstat/rules").glob("c[0-9][0-9].py"))
if os.environ.get("PROPS"):  # restrict the run to some properties (a quick regression of the rules that were changed)
    built = [p_ for p_ in built if p_ in os.environ["PROPS"].split()]
# the checks run from a snapshot of the checker, so that it can be edited while a matrix is running
SNAP = Path(tempfile.mkdtemp(prefix="vstat_snap_"))
shutil.copytree(VERIF / "vstat", SNAP / "vstat", ignore=shutil.ignore_patterns("__pycache__"))
shutil.copy(VERIF / "known_findings.json", SNAP / "known_findings.json")


def run(seed):
    wt = f"/tmp/seedrun_{seed}"
    import time
    for attempt in range(8):  # concurrent `git worktree add`s contend for the repository lock: retry
        subprocess.run(["git", "-C", "/repo", "worktree", "remove", "--force", wt], capture_output=True)
        r0 = subprocess.run(["git", "-C", "/repo", "worktree", "add", "-q", "--detach", wt, "HEAD"], capture_output=True, text=True)
        if r0.returncode == 0:
            break
        time.sleep(1 + attempt)
    else:
        return seed, {"error": "git worktree add failed: " + r0.stderr[:200]}
    try:
        r = subprocess.run(["git", "-C", wt, "apply", str(VERIF / SEED_DIR / seed / "patch.diff")], capture_output=True, text=True)
        if r.returncode:
            return seed, {"error": "patch does not apply: " + r.stderr[:200]}
        out = {}
        env = dict(os.environ, VSTAT_NO_EVIDENCE="1", VSTAT_WORKERS=os.environ.get("VSTAT_WORKERS", "4"))
        props = built
        meta_path = VERIF / SEED_DIR / seed / "meta.json"
        if os.environ.get("ONLY_RECORDED") and meta_path.exists():
            # regression mode: only the properties on record as reporting this seed (meta.json caught_by)
            rec = json.loads(meta_path.read_text()).get("caught_by") or []
            props = [p_ for p_ in built if p_ in rec] or built
        if os.environ.get("STOP_AT_FIRST"):
            # the seed's own property first, then the others; stop at the first property that reports it
            own = seed.split("-")[0]
            props = [p_ for p_ in props if p_ == own] + [p_ for p_ in props if p_ != own]
        for prop in props:
            if os.environ.get("STOP_AT_FIRST") and any(v_["exit"] == 1 for v_ in out.values()):
                break
            p = subprocess.run(["/venv/bin/python", "-m", "vstat", prop, "--repo", wt], cwd=SNAP, capture_output=True, text=True, env=env)
            rules = sorted({l.split()[0] for l in p.stdout.splitlines() if l.startswith("  C")})
            out[prop] = {"exit": p.returncode, "rules": rules}
            if p.returncode == 2:
                out[prop]["msg"] = [l for l in p.stdout.splitlines() if "ANALYSIS-ERROR" in l][:1]
        return seed, out
    finally:
        subprocess.run(["git", "-C", "/repo", "worktree", "remove", "--force", wt], capture_output=True)


import threading
from concurrent.futures import as_completed

matrix_path = VERIF / SEED_DIR / "MATRIX.json"
lock = threading.Lock()


def report(seed, r):
    with lock:  # results are stored as they arrive, so an interrupted run keeps what it has
        old = json.loads(matrix_path.read_text()) if matrix_path.exists() else {}
        stored = r
        if os.environ.get("ONLY_RECORDED") and isinstance(old.get(seed), dict) and "error" not in r:
            stored = dict(old[seed])
            stored.update(r)
        old[seed] = stored
        matrix_path.write_text(json.dumps(old, indent=1, sort_keys=True))
        if "error" in r:
            print(seed, r["error"], flush=True)
            return
        hit = [f"{p}({','.join(v['rules'])})" for p, v in r.items() if v["exit"] == 1]
        und = [f"{p}:{v.get('msg')}" for p, v in r.items() if v["exit"] == 2]
        print(f"{seed:14s} {'CAUGHT ' + ' '.join(hit) if hit else 'missed'}" + (f"   UNDECIDED {und}" if und else ""), flush=True)


with ThreadPoolExecutor(int(os.environ.get("MATRIX_JOBS", "8"))) as ex:
    futs = [ex.submit(run, s) for s in seeds]
    for f in as_completed(futs):
        try:
            report(*f.result())
        except Exception as exc:  # one broken seed run must not lose the others
            print("MATRIX-ERROR", repr(exc)[:300], flush=True)
shutil.rmtree(SNAP, ignore_errors=True)
