#!/venv/bin/python
"""Regenerates /verif/MANIFEST.json from the rule modules that exist (a property without a rule module is listed
under not_applicable as 'not built' - nothing passes by omission)."""
import json
from pathlib import Path

VERIF = Path("/verif")
props = [json.loads(l) for l in (VERIF / "properties.jsonl").read_text().splitlines() if l.strip()]

TECH = {
    "C01": "static analysis: grammar and Lark options discovered by abstract interpretation of the parse function (all paths), rule-order / alias / configuration rules over the compiled grammar (Lark front-end, no parser built), terminal-language comparison by DFA",
    "C02": "static analysis: regular-language equality of every terminal with the documented language (DFA over the Unicode alphabet), bounded token-sentence comparison of both grammars, abstract interpretation of the parse functions / resolver / validity check with the Lark parser raising each documented exception, on a corpus of malformed and well-formed strings; log-format lint",
    "C03": "static analysis: complete decision-table extraction by finite-domain abstract interpretation of the enum's operator methods; all laws checked exhaustively on the extracted tables",
    "C04": "static analysis: decision tables of the transformer callbacks by abstract interpretation over an abstract operand domain (induction premises) + bounded abstract interpretation of the whole pipeline on all small expression trees against reference semantics",
    "C05": "static analysis: table lemmas (identity, symmetry, monotonicity, attach) on the extracted operator and callback tables + bounded sweep of small trees",
    "C06": "static analysis: raise-condition decision table of or/xor composition, neutrality lemma, abstract interpretation of is_valid_expression (context-local setter model) and of multi-part AHB expressions on all small trees",
    "C07": "static analysis: attach-rule table, string-template analysis of the expression builder, bounded abstract interpretation of collected expressions against the direct reading",
    "C08": "static analysis: decision tables of the Boolean callbacks and message builders, abstract interpretation of format_constraint_evaluation (stub and shipped evaluators), hidden-state rule",
    "C09": "static analysis: terminal-language vs callback look-up agreement, bounded abstract interpretation of multi-part AHB expressions under both gather schedules against reference selection, hidden-state rule",
    "C10": "static analysis: abstract interpretation of the resolver (stub and shipped package resolvers) on small expressions / package tables against textual bracketed substitution under both schedules, one-level reachability rule on the call graph, hidden-state rule",
    "C11": "static analysis: ownership/escape rule on memoised values decided by abstract interpretation of the decorator stack over call histories (miss, hit, eviction, keyword calls, uncopyable trees, in-place edits); purity and who-may-memoise / who-may-unwrap rules",
    "C12": "static analysis: abstract interpretation of evaluators, providers, resolver, AHB evaluation and validation under in-order and reversed gather schedules with per-task context copies; completion-order-API ban; context-local setter observation; hidden-state rule",
    "C13": "static analysis: abstract interpretation of validation.py over ~5 800 small abstract AHB trees against the documented tables + complete decision tables of status mapping / combination",
    "C14": "static analysis: interprocedural parameter-flow rule for soll_is_required on every call edge (incl. objects carrying the flag), SOLL rows of the status table, abstract interpretation of trees vs. their SOLL-rewritten twins, positional vs keyword entry",
    "C15": "static analysis: ContextVar writer / reader rules, abstract interpretation of validation with context copies per gather task (each element alone vs. in the tree), sequential-await rule, hidden-state rule",
    "C16": "static analysis: handler-coverage rule on every call path to the evaluation, exception-class table of the composition callbacks, abstract interpretation of trees vs. their 'Kann'-replaced twins",
    "C17": "static analysis: decision table of validate_data_element_valuepool by abstract interpretation over abstract pools / inputs / parent statuses (direct and through the dispatcher)",
    "C18": "static analysis: integer-region decision table of the key classifier, abstract interpretation of extraction / union / sanitising and of the bounded result generator, hidden-state rule",
    "C19": "static analysis: schema/model field, nullability, type and enum tables read from the AST + abstract interpretation of every load hook on sample data (incl. token values, state spellings), hidden-state rule over the schema code",
    "C20": "static analysis: path-condition analysis by abstract interpretation of evaluate_931..935 (direct and via the context variable) on an abstract datetime: every path's verdict vs. the documented function of the path condition; no raising path",
}
LEVEL = {
    "C03": "Complete decision within the trusted base of the abstract interpreter: the 3 x 16 operator cells are extracted from the current AST and every law is checked on all pairs/triples (exhaustive).",
}
DEFAULT_LEVEL = ("Static rule instances decided on the current tree (see DESIGN.md section 3 for the clause list): unbounded for the "
                 "table/structural rules (finite abstract domains enumerated completely), bounded where the evidence file says "
                 "'sweep' (all expression/AHB trees up to the tier's size bound). Not a proof of the behavioural property: the "
                 "induction steps rest on the library lemmas L1-L9 listed in the evidence file's assumptions.")
NOTE = ("Trusted base: CPython ast, the checker's own abstract interpreter (vstat/fdai.py), Lark's grammar front-end, the library "
        "lemmas of DESIGN.md section 2. Nothing of ahbicht is imported or executed by a check.")

built = sorted(p.stem.upper() for p in (VERIF / "vstat/rules").glob("c[0-9][0-9].py"))
declined = {}
decl_file = VERIF / "tools" / "declined.json"
if decl_file.exists():
    declined = json.loads(decl_file.read_text())

checks = []
na = []
for p in props:
    pid = p["id"]
    if pid in built and pid not in declined:
        checks.append({
            "property_id": pid,
            "quick_cmd": f"/venv/bin/python -m vstat {pid} --tier quick",
            "thorough_cmd": f"/venv/bin/python -m vstat {pid} --tier thorough",
            "evidence_file": f"/verif/evidence/{pid}.json",
            "replay_cmd_template": f"/venv/bin/python -m vstat {pid} --tier quick --replay {{path}}",
            "engine": "vstat",
            "level_claimed": {"category": "other", "text": LEVEL.get(pid, DEFAULT_LEVEL), "design_ref": f"DESIGN.md section 3, {pid}"},
            "level_note": NOTE,
            "technique": "static analysis: " + TECH[pid],
        })
    else:
        na.append({"property_id": pid, "reason": declined.get(pid, "rule not built yet (construction in progress; see DESIGN.md section 5.2)")})

manifest = {
    "version": 1,
    "setup_cmd": "/venv/bin/python -c \"import lark, ast, re; from lark.load_grammar import load_grammar; print('vstat: lark front-end', lark.__version__, 'ok')\"",
    "hooks": {
        "guard": "HOCHFREQUENZ_AHBICHT_VERIF",
        "enable": "no hooks or instrumentation: every check reads the source of /repo's working tree; the guard is unused",
        "baseline_off_cmd": "cd /repo && /venv/bin/python -m pytest -ra -q -p no:cacheprovider --timeout=900 --continue-on-collection-errors",
        "source_commits": [],
        "add_only": True,
    },
    "engines": [{"name": "vstat", "path": "/verif/vstat", "serves_properties": built,
                 "kind_free_text": "repository-specific static analysis over Python ASTs (source model, call graph, finite-domain abstract interpreter), Lark's grammar front-end and regex ASTs; nothing of ahbicht is imported or executed"}],
    "checks": checks,
    "notes": "Technique family: static analysis. Exit 0 = all rule instances hold; exit 1 + VIOLATION line = a rule instance fails (replay file names file:line, function, rule, instance); exit 2 + ANALYSIS-ERROR = cannot decide (anchor vanished / construct outside the supported subset) - never a silent pass. The repository carries ten unguarded 'fix:' commits for defects found by these rules (known_findings.json, all status fixed).",
    "not_applicable": na,
}
(VERIF / "MANIFEST.json").write_text(json.dumps(manifest, indent=1))
print("checks:", [c["property_id"] for c in checks], "not_applicable:", [n["property_id"] for n in na])
