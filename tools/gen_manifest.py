#!/venv/bin/python
"""Regenerates /verif/MANIFEST.json from the rule modules that exist (a property without a rule module is listed
under not_applicable as 'not built' - nothing passes by omission)."""
import json
from pathlib import Path

VERIF = Path("/verif")
props = [json.loads(l) for l in (VERIF / "properties.jsonl").read_text().splitlines() if l.strip()]

TECH = {
    "C01": "grammar-rule order / configuration rules over the Lark grammar front-end + terminal-language (DFA) comparison",
    "C02": "exception-discipline (may-raise) rules over handler sets and transformer call sites + regular-language equality of every terminal with the documented language + token-level grammar comparison",
    "C03": "complete decision-table extraction by finite-domain abstract interpretation of the enum's operator methods; all laws checked exhaustively",
    "C04": "decision tables of the transformer callbacks by abstract interpretation of the AST over an abstract operand domain (induction premises) + bounded abstract interpretation of the whole pipeline against reference semantics",
    "C05": "table lemmas (identity, symmetry, monotonicity) on the extracted operator and callback tables",
    "C06": "raise-condition decision table of or/xor composition + neutrality lemma + abstract interpretation of is_valid_expression on all small trees",
    "C07": "attach-rule table, string-template analysis of the expression builder and bounded abstract interpretation of collected expressions against the direct reading",
    "C08": "decision tables of the Boolean callbacks and message builders (invariant preservation) + hidden-state rule + bounded abstract interpretation",
    "C09": "terminal-language vs callback look-up agreement, selection-loop decision table over abstract part lists, bounded abstract interpretation of multi-part AHB expressions, hidden-state rule",
    "C10": "abstract interpretation of the resolver on small expressions/package tables against textual substitution, ordering and reachability rules on the call graph",
    "C11": "ownership/escape rule on memoised values: every value flowing from the cached callable to a return passes a deep copy; memoisation who-may rule",
    "C12": "order-alignment rule for every gather/zip site, completion-order-API ban, hidden-state/taint rule for context-local data, permutation-invariance of the abstractly interpreted pipeline under all gather schedules",
    "C13": "abstract interpretation of the validation functions over all small abstract AHB trees against the documented tables + complete decision tables of the status mapping/combination",
    "C14": "interprocedural parameter-flow rule for soll_is_required on every call edge + SOLL rows of the status table + abstract interpretation of rewritten trees",
    "C15": "ContextVar typestate rule (set dominates evaluation, own task per element) + abstract interpretation with context copies per gather task",
    "C16": "handler-coverage rule on every call path to the evaluation + decision table of the handlers + abstract interpretation vs 'Kann' replacement",
    "C17": "decision table of validate_data_element_valuepool over abstract pools/inputs/parent statuses",
    "C18": "integer-region decision table of the key classifier, routing/field-coverage rules, bounded abstract interpretation of the result generator",
    "C19": "schema/model field, nullability and enum round-trip tables read from the AST",
    "C20": "argument/constant binding, def-use of the compared local time, offset-dependence and exception-coverage rules",
}
LEVEL = {
    "C03": "Complete decision within the trusted base of the abstract interpreter: the 3 x 16 operator cells are extracted from the current AST and every law is checked on all pairs/triples (exhaustive).",
}
DEFAULT_LEVEL = ("Static rule instances decided on the current tree (see DESIGN.md section 3 for the clause list): unbounded for the "
                 "table/structural rules (finite abstract domains enumerated completely), bounded where the evidence file says "
                 "'sweep' (all expression/AHB trees up to the tier's size bound). Not a proof of the behavioural property: the "
                 "induction steps rest on the library lemmas L1-L9 listed in the evidence file's assumptions.")
NOTE = ("Trusted base: CPython ast, the checker's own abstract interpreter (vstat/fdai.py), Lark's grammar front-end, the library "
        "lemmas of DESIGN.md section 2. Nothing of ahbicht is imported or executed by a check.")

built = sorted(p.stem.upper() for p in (VERIF / "vstat/rules").glob("c[0-9][0-9].py"))
declined = {}
decl_file = VERIF / "tools" / "declined.json"
if decl_file.exists():
    declined = json.loads(decl_file.read_text())

checks = []
na = []
for p in props:
    pid = p["id"]
    if pid in built and pid not in declined:
        checks.append({
            "property_id": pid,
            "quick_cmd": f"/venv/bin/python -m vstat {pid} --tier quick",
            "thorough_cmd": f"/venv/bin/python -m vstat {pid} --tier thorough",
            "evidence_file": f"/verif/evidence/{pid}.json",
            "replay_cmd_template": f"/venv/bin/python -m vstat {pid} --tier quick --replay {{path}}",
            "engine": "vstat",
            "level_claimed": {"category": "other", "text": LEVEL.get(pid, DEFAULT_LEVEL), "design_ref": f"DESIGN.md section 3, {pid}"},
            "level_note": NOTE,
            "technique": "static analysis: " + TECH[pid],
        })
    else:
        na.append({"property_id": pid, "reason": declined.get(pid, "rule not built yet (construction in progress; see DESIGN.md section 5.2)")})

manifest = {
    "version": 1,
    "setup_cmd": "/venv/bin/python -c \"import lark, ast, re; from lark.load_grammar import load_grammar; print('vstat: lark front-end', lark.__version__, 'ok')\"",
    "hooks": {
        "guard": "HOCHFREQUENZ_AHBICHT_VERIF",
        "enable": "no hooks or instrumentation: every check reads the source of /repo's working tree; the guard is unused",
        "baseline_off_cmd": "cd /repo && /venv/bin/python -m pytest -ra -q -p no:cacheprovider --timeout=900 --continue-on-collection-errors",
        "source_commits": [],
        "add_only": True,
    },
    "engines": [{"name": "vstat", "path": "/verif/vstat", "serves_properties": built,
                 "kind_free_text": "repository-specific static analysis over Python ASTs (source model, call graph, finite-domain abstract interpreter), Lark's grammar front-end and regex ASTs; nothing of ahbicht is imported or executed"}],
    "checks": checks,
    "notes": "Technique family: static analysis. Exit 0 = all rule instances hold; exit 1 + VIOLATION line = a rule instance fails (replay file names file:line, function, rule, instance); exit 2 + ANALYSIS-ERROR = cannot decide (anchor vanished / construct outside the supported subset) - never a silent pass. The repository carries ten unguarded 'fix:' commits for defects found by these rules (known_findings.json, all status fixed).",
    "not_applicable": na,
}
(VERIF / "MANIFEST.json").write_text(json.dumps(manifest, indent=1))
print("checks:", [c["property_id"] for c in checks], "not_applicable:", [n["property_id"] for n in na])
