"""Reference semantics written from the property statements (the oracle side of the decision tables).

Expression ASTs are nested tuples:
  ('key', '12') | ('pkg', '1P', rep|None) | ('time', 'UB1') | ('and'|'or'|'xor'|'then', left, right)
Nothing here looks at the repository.
"""
from __future__ import annotations

import re
from typing import Any, Dict, List, Optional, Tuple

F, U, K, N = "FULFILLED", "UNFULFILLED", "UNKNOWN", "NEUTRAL"


class RefSyntaxError(Exception):
    """kind: 'eof' if the input ended too early (Lark: UnexpectedEOF), else 'char' (UnexpectedCharacters)."""

    def __init__(self, msg: str, kind: str = "char"):
        super().__init__(msg)
        self.kind = kind


class RefInvalid(Exception):
    pass


def key_kind(key: str) -> str:
    """Documented number ranges (C18)."""
    n = int(key)
    if 1 <= n <= 499 or 2000 <= n <= 2499:
        return "rc"
    if 500 <= n <= 900:
        return "hint"
    if 901 <= n <= 999:
        return "fc"
    raise ValueError(key)


# ------------------------------------------------------------------------------------------------ parsing
WS = r"[ \t\f\r\n]"  # lark's common.WS - not Python's Unicode-aware \s
TOKEN_RE = re.compile(
    (r"\s*(?:(?P<time>\[\s*UB[123]\s*\])|(?P<pkg>\[\s*[0-9]+P\s*(?:[0-9]+\.\.[1-9][0-9]*)?\s*\])|(?P<key>\[\s*[0-9]+\s*\])"
     r"|(?P<op>[UuOoXx∧∨⊻])|(?P<lp>\()|(?P<rp>\)))").replace(r"\s", WS)
)
OPCLASS = {"U": "and", "u": "and", "∧": "and", "O": "or", "o": "or", "∨": "or", "X": "xor", "x": "xor", "⊻": "xor"}


def tokenize(text: str) -> List[Tuple[str, str]]:
    pos = 0
    out: List[Tuple[str, str]] = []
    text = text.rstrip(" \t\f\r\n")
    if not text.strip(" \t\f\r\n"):
        raise RefSyntaxError("empty", "eof")
    while pos < len(text):
        m = TOKEN_RE.match(text, pos)
        if not m or m.end() == pos:
            raise RefSyntaxError(f"bad character at {pos}: {text[pos:pos + 5]!r}")
        kind = m.lastgroup
        out.append((kind, re.sub(WS + "+", "", m.group(kind))))
        pos = m.end()
    return out


def parse_condition(text: str):
    """Documented grammar and precedence: brackets > juxtaposition > and > xor > or (same-operator runs: left-assoc)."""
    toks = tokenize(text)
    pos = 0

    def peek():
        return toks[pos] if pos < len(toks) else (None, None)

    def atom():
        nonlocal pos
        kind, val = peek()
        if kind == "lp":
            pos += 1
            e = level_or()
            if peek()[0] != "rp":
                raise RefSyntaxError("missing )", "eof" if peek()[0] is None else "char")
            pos += 1
            return e
        if kind == "key":
            pos += 1
            return ("key", val[1:-1])
        if kind == "time":
            pos += 1
            return ("time", val[1:-1])
        if kind == "pkg":
            pos += 1
            inner = val[1:-1]
            i = inner.index("P") + 1
            return ("pkg", inner[:i], inner[i:] or None)
        raise RefSyntaxError(f"operand expected, got {val!r}", "eof" if kind is None else "char")

    def level_then():
        e = atom()
        while peek()[0] in ("lp", "key", "time", "pkg"):
            e = ("then", e, atom())
        return e

    def binary(sub, cls):
        def level():
            nonlocal pos
            e = sub()
            while peek()[0] == "op" and OPCLASS[peek()[1]] == cls:
                pos += 1
                e = (cls, e, sub())
            return e

        return level

    level_and = binary(level_then, "and")
    level_xor = binary(level_and, "xor")
    level_or = binary(level_xor, "or")
    e = level_or()
    if pos != len(toks):
        raise RefSyntaxError(f"unexpected {peek()[1]!r}")
    return e


MODAL = {"MUSS": "MUSS", "M": "MUSS", "SOLL": "SOLL", "S": "SOLL", "KANN": "KANN", "K": "KANN"}
IND_RE = re.compile(r"(?P<mm>[Mm][Uu][Ss][Ss]|[Ss][Oo][Ll][Ll]|[Kk][Aa][Nn][Nn]|[MmSsKk])(?![A-Za-z])")
PO_RE = re.compile(r"(?P<po>[XxOoUu])(?![A-Za-z])")
NEXT_MM = re.compile(r"[MmSsKk]")


def parse_ahb(text: str) -> List[Tuple[str, str, Optional[str]]]:
    """Split an AHB expression into [(indicator kind 'mm'|'po', written indicator, condition text | None)].
    Forms: (MM CE)+ | (MM CE)+ MM | PO CE | PO | MM. No whitespace before the first indicator (the AHB grammar ignores
    none); whitespace elsewhere belongs to the condition expression in front of it."""
    m = PO_RE.match(text)
    if m:
        rest = text[m.end():]
        if rest == "":
            return [("po", m.group("po"), None)]
        parse_condition(rest)
        return [("po", m.group("po"), rest)]
    parts: List[Tuple[str, str, Optional[str]]] = []
    pos = 0
    while True:
        m = IND_RE.match(text, pos)
        if not m:
            raise RefSyntaxError(f"indicator expected at {pos}")
        pos = m.end()
        nxt = NEXT_MM.search(text, pos)
        end = nxt.start() if nxt else len(text)
        cond = text[pos:end]
        if cond == "":
            if end != len(text):
                raise RefSyntaxError("a bare modal mark must be last")
            parts.append(("mm", m.group("mm"), None))
            break
        parse_condition(cond)
        parts.append(("mm", m.group("mm"), cond))
        pos = end
        if pos >= len(text):
            break
    return parts


def parse_ahb_tokens(text: str) -> List[Tuple[str, str, Any]]:
    """Like parse_ahb but with the condition parts parsed into reference ASTs."""
    return [(k, ind, parse_condition(c) if c is not None else None) for (k, ind, c) in parse_ahb(text)]


# ------------------------------------------------------------------------------------------------ four-valued logic
def op4(cls: str, a: str, b: str) -> str:
    if a == N:
        return b
    if b == N:
        return a
    vals = []
    for ra in ([True, False] if a == K else [a == F]):
        for rb in ([True, False] if b == K else [b == F]):
            vals.append({"and": ra and rb, "or": ra or rb, "xor": ra != rb}[cls])
    if all(vals):
        return F
    if not any(vals):
        return U
    return K


def keys_of(e) -> List[str]:
    if e[0] == "key":
        return [e[1]]
    if e[0] in ("pkg", "time"):
        return []
    return keys_of(e[1]) + keys_of(e[2])


def has_rc(e) -> bool:
    return any(key_kind(k) == "rc" for k in keys_of(e))


def is_leaf(e, kind: str) -> bool:
    return e[0] == "key" and key_kind(e[1]) == kind


def in_quantifier(e) -> bool:
    """C04/C06 quantifier: juxtaposition attaches a single format-constraint key to a hint or to an operand
    containing a requirement constraint."""
    if e[0] == "key":
        return True
    if e[0] in ("pkg", "time"):
        return False
    if not (in_quantifier(e[1]) and in_quantifier(e[2])):
        return False
    if e[0] == "then":
        l, r = e[1], e[2]
        for fc, other in ((l, r), (r, l)):
            if is_leaf(fc, "fc") and (is_leaf(other, "hint") or has_rc(other)) and not is_leaf(other, "fc"):
                return True
        return False
    return True


def valid(e) -> bool:
    """Structural validity (C06)."""
    if e[0] == "key":
        return True
    if not (valid(e[1]) and valid(e[2])):
        return False
    if e[0] in ("or", "xor"):
        l, r = e[1], e[2]
        if has_rc(l) != has_rc(r):
            return False  # an operand that can only be NEUTRAL combined with one carrying a requirement constraint
        if (is_leaf(l, "hint") and is_leaf(r, "fc")) or (is_leaf(r, "hint") and is_leaf(l, "fc")):
            return False
    return True


def state(e, rc: Dict[str, str]) -> str:
    """Compositional requirement semantics (C04); hints and format constraints are NEUTRAL."""
    if e[0] == "key":
        return rc[e[1]] if key_kind(e[1]) == "rc" else N
    if e[0] == "then":
        l, r = e[1], e[2]
        other = r if is_leaf(l, "fc") else l
        return state(other, rc)
    return op4(e[0], state(e[1], rc), state(e[2], rc))


def outcome(st: str) -> Tuple[Optional[bool], Optional[bool]]:
    return {F: (True, True), N: (True, False), U: (False, True), K: (None, None)}[st]


def fc_reading(e, rc: Dict[str, str], fc: Dict[str, bool]) -> Optional[bool]:
    """Direct reading of the format constraints of the source expression (C07). None = contributes nothing."""
    if e[0] == "key":
        return fc[e[1]] if key_kind(e[1]) == "fc" else None
    if e[0] == "then":
        l, r = e[1], e[2]
        fck, other = (l, r) if is_leaf(l, "fc") else (r, l)
        if is_leaf(other, "hint") or state(other, rc) == F:
            o = fc_reading(other, rc, fc)
            return fc[fck[1]] if o is None else (fc[fck[1]] and o)
        return fc_reading(other, rc, fc) if False else None
    a, b = fc_reading(e[1], rc, fc), fc_reading(e[2], rc, fc)
    if a is None:
        return b
    if b is None:
        return a
    return {"and": a and b, "or": a or b, "xor": a != b}[e[0]]


def nested_attachment(e) -> bool:
    """True if some juxtaposition partner itself contains a format constraint (the reading is then ambiguous)."""
    if e[0] == "key":
        return False
    if e[0] == "then":
        l, r = e[1], e[2]
        other = r if is_leaf(l, "fc") else l
        if any(key_kind(k) == "fc" for k in keys_of(other)):
            return True
    return nested_attachment(e[1]) or nested_attachment(e[2])


def bool_expr_value(e, fc: Dict[str, bool]) -> bool:
    """Boolean value of a pure format-constraint expression (C08)."""
    if e[0] == "key":
        return fc[e[1]]
    a, b = bool_expr_value(e[1], fc), bool_expr_value(e[2], fc)
    return {"and": a and b, "or": a or b, "xor": a != b, "then": a and b}[e[0]]


def unparse(e, spell: Optional[Dict[str, str]] = None) -> str:
    spell = spell or {"and": "U", "or": "O", "xor": "X"}
    if e[0] == "key":
        return f"[{e[1]}]"
    if e[0] == "pkg":
        return f"[{e[1]}{e[2] or ''}]"
    if e[0] == "time":
        return f"[{e[1]}]"
    l, r = unparse(e[1], spell), unparse(e[2], spell)
    if e[1][0] not in ("key", "pkg", "time"):
        l = f"({l})"
    if e[2][0] not in ("key", "pkg", "time"):
        r = f"({r})"
    if e[0] == "then":
        return f"{l}{r}"
    return f"{l} {spell[e[0]]} {r}"


# ------------------------------------------------------------------------------------------------ validation tables
def map_status(outcome_: Optional[bool], indicator: str, soll_is_required: bool) -> str:
    """Documented mapping requirement indicator x requirement outcome -> status ('raise:NotImplementedError')."""
    if indicator == "SOLL":
        indicator = "MUSS" if soll_is_required else "KANN"
    if outcome_ is False:
        return "IS_FORBIDDEN"
    if outcome_ is None:
        return "IS_OPTIONAL" if indicator == "KANN" else "raise:NotImplementedError"
    return "IS_OPTIONAL" if indicator == "KANN" else "IS_REQUIRED"


def combine(parent: Optional[str], child: str) -> str:
    if parent in (None, "IS_REQUIRED"):
        return child
    if parent == "IS_OPTIONAL":
        return "IS_OPTIONAL" if child == "IS_REQUIRED" else child
    return "raise:ValueError"


# ------------------------------------------------------------------------------------------------ AHB expression level
def ref_part(cond, rc: Dict[str, str], fc: Dict[str, bool]):
    """Reference evaluation of one part's condition AST: dict or raises RefInvalid."""
    if not valid(cond):
        raise RefInvalid(unparse(cond))
    st = state(cond, rc)
    fulfilled, conditional = outcome(st)
    reading = fc_reading(cond, rc, fc)
    return {"fulfilled": fulfilled, "conditional": conditional, "fc_fulfilled": True if reading is None else reading,
            "hint_keys": [k for k in keys_of(cond) if key_kind(k) == "hint"]}


def ref_evaluate_ahb(text: str, rc: Dict[str, str], fc: Dict[str, bool]):
    """Reference evaluation of an AHB expression: first fulfilled part, else last. All parts are evaluated first."""
    parts = parse_ahb_tokens(text)
    results = []
    for kind, written, cond in parts:
        ind = ("ModalMark", MODAL[written.upper()]) if kind == "mm" else ("PrefixOperator", written.upper())
        if cond is None:
            results.append({"indicator": ind, "fulfilled": True, "conditional": False, "fc_fulfilled": True, "hint_keys": []})
        else:
            r = ref_part(cond, rc, fc)
            r["indicator"] = ind
            results.append(r)
    for r in results:
        if r["fulfilled"]:
            if len(results) > 1:
                r["conditional"] = True
            return r
    return results[-1]


def validation_status(outcome_, indicator: str, parent: Optional[str], soll_is_required: bool) -> str:
    own = map_status(outcome_, indicator, soll_is_required)
    if own.startswith("raise:"):
        return own
    return combine(parent, own)
