"""C14 - soll_is_required is equivalent to rewriting SOLL at every level."""
from __future__ import annotations

import ast

from .. import refsem, valsweep
from ..report import Ctx
from ..srcmodel import ClassDef, dotted, norm

EXPLANATION = (
    "Interprocedural parameter-flow rule: on every call edge between two functions of the validation module that both "
    "have the parameter soll_is_required, the callee's parameter receives the caller's parameter itself (not its default, "
    "not a constant) - checked on the resolved call graph, positional and keyword forms. Table rule: the SOLL rows of the "
    "extracted status table equal the MUSS rows (flag on) resp. the KANN rows (flag off) and the flag influences no other "
    "row. Bounded: for every swept AHB tree containing SOLL the abstractly interpreted validation with the flag gives "
    "the same node list and statuses as the tree with every SOLL textually rewritten to MUSS resp. KANN."
)
VAL = "ahbicht.validation.validation"
FILE = "src/ahbicht/validation/validation.py"
FLAG = "soll_is_required"


def check(ctx: Ctx) -> None:
    model = ctx.model
    mod = model.module(VAL)
    entry = model.func(f"{VAL}.validate_deep_anwendungshandbuch")
    ctx.require(FLAG in entry.params, f"validate_deep_anwendungshandbuch has no parameter {FLAG}")
    def flag_attrs(cls) -> set:
        """attributes of `cls` that its __init__ fills with the flag parameter (an object that carries the flag)"""
        out = set()
        if cls is None:
            return out
        for cn in model.mro(cls.qualname):
            c = model.classes.get(cn)
            init = c.methods.get("__init__") if c is not None else None
            if init is None or FLAG not in init.params:
                continue
            for n in ast.walk(init.node):
                if isinstance(n, (ast.Assign, ast.AnnAssign)) and isinstance(n.value, ast.Name) and n.value.id == FLAG:
                    for t in (n.targets if isinstance(n, ast.Assign) else [n.target]):
                        if isinstance(t, ast.Attribute) and isinstance(t.value, ast.Name) and t.value.id == "self":
                            out.add(t.attr)
        return out

    def carries_flag(f) -> bool:
        return FLAG in f.params or bool(flag_attrs(f.cls))

    def is_flag_expr(f, arg) -> bool:
        if isinstance(arg, ast.Name) and arg.id == FLAG and FLAG in f.params:
            return True
        if isinstance(arg, ast.Attribute) and isinstance(arg.value, ast.Name) and arg.value.id == "self" and arg.attr in flag_attrs(f.cls):
            return True
        if isinstance(arg, ast.Attribute) and isinstance(arg.value, ast.Name) and arg.value.id == "self" and f.cls is not None:
            prop = model.find_method(f.cls, arg.attr)  # a property that returns the stored flag
            if prop is not None and any((dotted(d) or "") == "property" for d in prop.node.decorator_list):
                rets = [n.value for n in ast.walk(prop.node) if isinstance(n, ast.Return)]
                return len(rets) == 1 and is_flag_expr(prop, rets[0])
        return False

    holders = [f for f in model.functions.values() if f.module is mod and carries_flag(f)]
    sink = model.func(f"{VAL}.map_requirement_validation_values")
    ctx.require(FLAG in sink.params, f"map_requirement_validation_values has no parameter {FLAG}")
    edges = 0
    reach_sink = {f.qualname for f in holders if sink.qualname in model.reachable(f)}
    ctx.require(entry.qualname in reach_sink, "no call path from validate_deep_anwendungshandbuch to map_requirement_validation_values")
    for caller in holders:
        for site in model.callsites(caller):
            for callee in site.targets:
                if FLAG not in callee.params or callee.module is not mod:
                    continue
                edges += 1
                ctx.count()
                arg = None
                for kw in site.node.keywords:
                    if kw.arg == FLAG:
                        arg = kw.value
                idx = callee.params.index(FLAG) + site.arg_offset
                bound = callee.cls is not None and callee.params[:1] in (["self"], ["cls"]) and not any((dotted(d) or "") == "staticmethod" for d in callee.node.decorator_list)
                if bound and not (isinstance(site.node.func, ast.Attribute) and isinstance(model.resolve_expr(caller.module, site.node.func.value), ClassDef)):
                    idx -= 1  # constructor call or call on an instance: the first parameter is bound implicitly
                if site.how == "ref":
                    arg = None  # the function object is handed on (e.g. to map): only what the consumer passes positionally arrives
                elif arg is None and 0 <= idx < len(site.node.args) and not any(isinstance(a, ast.Starred) for a in site.node.args):
                    arg = site.node.args[idx]
                ok = arg is not None and is_flag_expr(caller, arg)
                what = (f"call edge {caller.name} -> {callee.name}: the callee's parameter '{FLAG}' " +
                        ("receives no argument (its default applies)" if arg is None else f"receives '{norm(arg)}' instead of the caller's flag"))
                ctx.ob("C14.thread", f"{caller.qualname}->{callee.qualname}", ok, what, file=FILE, line=site.line, function=caller.qualname)
                ctx.sample({"edge": f"{caller.name} -> {callee.name}", "argument": norm(arg) if arg is not None else None})
        # the flag must not be re-bound inside a holder
        for n in ast.walk(caller.node):
            if isinstance(n, ast.Name) and n.id == FLAG and isinstance(n.ctx, ast.Store):
                ctx.ob("C14.thread", f"{caller.qualname}::rebind", False, f"{caller.name} re-binds {FLAG}", file=FILE, line=n.lineno, function=caller.qualname)
    ctx.require(edges >= 5, f"only {edges} flag-carrying call edges found")
    ctx.units["flag_edges"] = edges
    # functions on the path that call a flag holder but do not hold the flag themselves
    reach_entry = model.reachable(entry)
    for fn in model.functions.values():
        if fn.module is mod and not carries_flag(fn):
            for site in model.callsites(fn):
                for callee in site.targets:
                    if FLAG in callee.params and callee.module is mod and fn.qualname in reach_entry and site.how != "ref":
                        ctx.ob("C14.thread", f"{fn.qualname}->{callee.qualname}", False,
                               f"{fn.name} is reachable from validate_deep_anwendungshandbuch and calls {callee.name} but has no '{FLAG}' to pass on",
                               file=FILE, line=site.line, function=fn.qualname)
    # rows
    from .c13 import _call

    for outcome in (True, False, None):
        for flag in (True, False):
            soll = _call(model, sink.qualname, lambda it: [outcome, it.enum("ahbicht.models.enums.ModalMark", "SOLL"), flag])
            twin = _call(model, sink.qualname, lambda it: [outcome, it.enum("ahbicht.models.enums.ModalMark", "MUSS" if flag else "KANN"), flag])
            ctx.count()
            ctx.ob("C14.rows", f"SOLL,{outcome},flag={flag}", soll == twin,
                   f"SOLL with outcome {outcome} and soll_is_required={flag} gives {soll}, {'MUSS' if flag else 'KANN'} gives {twin}", file=FILE, function=sink.qualname)
        for iname, icls in (("MUSS", "ModalMark"), ("KANN", "ModalMark"), ("X", "PrefixOperator")):
            a = _call(model, sink.qualname, lambda it: [outcome, it.enum(f"ahbicht.models.enums.{icls}", iname), True])
            b = _call(model, sink.qualname, lambda it: [outcome, it.enum(f"ahbicht.models.enums.{icls}", iname), False])
            ctx.count()
            ctx.ob("C14.rows", f"{iname},{outcome}", a == b, f"the flag changes the status of {iname} with outcome {outcome}: {a} vs {b}", file=FILE, function=sink.qualname)
    # the two public entry points take the flag as their second parameter: passing it by position or by keyword is the same call
    def entry_styles():
        seg = {"kind": "segment", "disc": "SEG", "expr": "Soll [1]", "elements": [{"kind": "freetext", "disc": "DE", "expr": "Soll [2]", "input": None}]}
        grp = {"kind": "group", "disc": "SG", "expr": "Soll", "groups": [], "segments": [seg]}
        for entry, node in (("level", seg), ("level", grp), ("deep", grp)):
            for flag in (True, False):
                env = {"rc": {"1": "FULFILLED", "2": "FULFILLED"}, "fc_text": {}, "soll": flag}
                kw = valsweep.run_validation(model, entry, node, env)
                pos = valsweep.run_validation(model, entry, node, env, positional=True)
                ctx.count(2)
                ctx.ob("C14.thread", f"entry:{entry}:{node['kind']}:flag={flag}", kw[:2] == pos[:2],
                       f"validate_{'deep_anwendungshandbuch' if entry == 'deep' else 'segment_level'}(x, {flag}) gives {pos[:2]} but with soll_is_required={flag} by keyword {kw[:2]}: "
                       "the flag passed by position does not reach the levels below", file=FILE)

    ctx.soft(entry_styles)
    ctx.soft(lambda: valsweep.report(ctx, ("C14.rewrite", "C13.tree")))
