"""C01 - condition expressions are grouped by the documented operator precedence."""
from __future__ import annotations

import ast

from .. import grammar as G
from .. import regexlang as R
from ..report import AnalysisError, Ctx
from ..srcmodel import norm

EXPLANATION = (
    "Structural decision on the grammar text found in the source (compiled with Lark's own front-end, no parser is "
    "built): the start rule is the flat ambiguous shape; with Earley + ambiguity='resolve' and no priorities (checked) "
    "Lark keeps the derivation of the earliest-listed alternative at every ambiguous node (lemma L1), so the grouping "
    "follows from the order of the alternatives: all OR alternatives before all XOR before all AND before "
    "juxtaposition. Operator classes are determined from the terminal languages (DFA over the whole Unicode alphabet): "
    "each class has exactly its three spellings and both alternatives of a class carry the same alias; whitespace is "
    "ignored between tokens and cannot be part of a token; brackets leave no node."
)
FILE = "src/ahbicht/expressions/condition_expression_parser.py"
SPELL = {"or": "[Oo∨]", "xor": "[Xx⊻]", "and": "[Uu∧]"}
ALIAS = {"or": "or_composition", "xor": "xor_composition", "and": "and_composition", "then": "then_also_composition"}
BINDING = ["or", "xor", "and", "then"]  # loosest first


def operator_class(g: G.Grammar, tname: str):
    t = g.term(tname)
    for cls, ref in SPELL.items():
        if R.inclusion_witness(t.parsed, R.parse(ref)) is None and not R.matches_empty(t.parsed):
            return cls
    return None


def check(ctx: Ctx) -> None:
    model = ctx.model
    g = G.load(model, G.COND_MOD)
    line = g.grammar_assign.lineno
    opts = G.effective_options(g)
    ctx.sample({"lark_options": {k: v for k, v in opts.items() if k != "other"}, "start": g.start})
    # ---- configuration (L1/L2 apply)
    ctx.ob("C01.config", "parser", opts["parser"] == "earley", f"the parser is {opts['parser']!r}; the precedence argument needs Earley", file=FILE, line=g.lark_call.lineno)
    ctx.ob("C01.config", "ambiguity", opts["ambiguity"] == "resolve",
           f"ambiguity={opts['ambiguity']!r}: the parser no longer returns the single resolved tree", file=FILE, line=g.lark_call.lineno)
    if opts["lexer"] not in ("dynamic", "dynamic_complete"):
        raise AnalysisError(f"lexer={opts['lexer']!r}: lemma L2 was only established for the dynamic Earley lexer")
    prio_rules = [r for r in g.rules if r.priority not in (None, 0)]
    prio_terms = [t for t in g.terminals.values() if t.priority not in (None, 0)]
    if prio_rules or prio_terms or opts["priority"] not in ("auto", "normal", "invert", None):
        raise AnalysisError("the grammar uses rule/terminal priorities: lemma L1 (order of alternatives decides) does not apply")
    bad = {k: (v, why) for k, v, why in G.option_findings(g)}
    for bad_opt in ("transformer", "tree_class", "postlex", "edit_terminals", "lexer_callbacks", "ordered_sets", "use_bytes"):
        ctx.ob("C01.config", bad_opt, bad_opt not in bad, f"Lark option {bad_opt}={bad.get(bad_opt, ('', ''))[0]!r}: {bad.get(bad_opt, ('', ''))[1]}", file=FILE, line=g.lark_call.lineno)
    ctx.ob("C01.config", "keep_all_tokens", not opts["keep_all_tokens"] and not any(r.keep_all_tokens for r in g.rules),
           "keep_all_tokens is set: operator and bracket tokens become tree children", file=FILE, line=g.lark_call.lineno)
    # the cached parse function uses this parser object on its own parameter
    d = g.discovery
    pf = d["fn"]
    bad_paths = [p for p in d["paths"] if not (p["good_call"] and p["returns_parse_result"]) or p["raised"]]
    ctx.ob("C01.config", "parse-call", not bad_paths,
           f"parse_condition_expression_to_tree does not return <the Lark parser>.parse(<its own argument>) on every path ({len(bad_paths)} of {len(d['paths'])} paths deviate): "
           + "; ".join(f"parse calls {p['calls_text']}, raises {p['raised']}, result is the parser's tree: {p['returns_parse_result']}" for p in bad_paths[:2]),
           file=FILE, line=pf.node.lineno, function=pf.qualname)
    # ---- shape of the start rule
    start = g.start
    alts = g.rules_of(start)
    ctx.require(len(alts) >= 5, f"start rule {start} has only {len(alts)} alternatives")
    atoms = {r.expansion[0][0] for r in alts if len(r.expansion) == 1 and not r.expansion[0][1]}
    flat = all(
        (len(r.expansion) == 3 and r.expansion[0][0] == start and r.expansion[2][0] == start and r.expansion[1][1])
        # juxtaposition: `e e`, or `e <atom>` spelled out per kind of atom (a sub-language of `e e` with the same root choice)
        or (len(r.expansion) == 2 and r.expansion[0][0] == start and (r.expansion[1][0] == start or r.expansion[1][0] in atoms) and not r.expansion[1][1])
        or (len(r.expansion) == 1 and not r.expansion[0][1])
        for r in alts)
    if not flat:
        raise AnalysisError("the start rule is not of the flat shape 'e OP e | e e | atom': the order rule cannot decide the precedence")
    classes = {}
    for r in alts:
        if len(r.expansion) == 3:
            cls = operator_class(g, r.expansion[1][0])
            ctx.ob("C01.spelling", f"operator:{r.expansion[1][0]}", cls is not None,
                   f"alternative #{r.order} uses terminal {r.expansion[1][0]} = /{g.terminals[r.expansion[1][0]].regexp}/ which is none of the documented operator spellings",
                   file=FILE, line=line)
            if cls is None:
                continue
            ctx.ob("C01.brackets", f"filtered:{r.expansion[1][0]}", r.expansion[1][2], f"operator terminal {r.expansion[1][0]} is kept in the tree", file=FILE, line=line)
        elif len(r.expansion) == 2:
            cls = "then"
        else:
            continue
        classes.setdefault(cls, []).append(r)
        ctx.ob("C01.spelling", f"alias:{cls}:#{r.order}", r.alias == ALIAS[cls],
               f"alternative #{r.order} ({cls}) is aliased {r.alias!r}; the tree node for this operator must be {ALIAS[cls]!r}", file=FILE, line=line)
    for cls, ref in SPELL.items():
        ctx.require(cls in classes, f"no alternative for operator class {cls}")
        # the union of the terminals of a class is exactly the three spellings
        lang = sorted({w for r in classes[cls] for w in (R.words(g.term(r.expansion[1][0]).parsed) or ["<infinite>"])})
        want = sorted(R.words(R.parse(ref)))
        ctx.count(len(want))
        ctx.ob("C01.spelling", f"spellings:{cls}", lang == want, f"operator class {cls} is spelled {lang}, documented: {want}", file=FILE, line=line)
    ctx.require("then" in classes, "no juxtaposition alternative")
    # ---- the order rule
    for loose, tight in zip(BINDING, BINDING[1:]):
        lo = max(r.order for r in classes[loose])
        hi = min(r.order for r in classes[tight])
        ctx.count()
        ctx.ob("C01.order", f"{loose}<{tight}", lo < hi,
               f"an alternative of the tighter binding '{tight}' (#{hi}) is listed before an alternative of '{loose}' (#{lo}): "
               f"Earley/resolve prefers the earlier alternative as root, so '{tight}' would bind looser than '{loose}'", file=FILE, line=line)
    ctx.sample({"alternative_order": {cls: [r.order for r in rs] for cls, rs in classes.items()}})
    # ---- whitespace
    ws_ref = R.parse("[ \\t\\f\\r\\n]+")
    ign = [g.term(n) for n in g.ignore]
    ctx.ob("C01.ws", "ignored", any(R.inclusion_witness(ws_ref, t.parsed) is None for t in ign),
           f"no %ignore'd terminal covers blank, tab, CR, LF, FF runs (ignored: {[(t.name, t.regexp) for t in ign]}): whitespace between tokens would be rejected",
           file=FILE, line=line)
    ws_chars = R.alphabet(ws_ref)
    for t in g.terminals.values():
        if t.name in g.ignore:
            continue
        inter = R.alphabet(g.term(t.name).parsed).intersect(ws_chars)
        ctx.count()
        ctx.ob("C01.ws", f"token:{t.name}", inter.is_empty(), f"terminal {t.name} can contain whitespace {inter.describe()}", file=FILE, line=line)
    # ---- brackets leave no node
    ctx.ob("C01.brackets", "start-inlined", all(r.expand1 for r in alts), f"the start rule {start} is not '?'-inlined", file=FILE, line=line)
    atoms = [r for r in alts if len(r.expansion) == 1]
    bracket_rules = []
    for r in atoms:
        for sub in g.rules_of(r.expansion[0][0]):
            kept = [s for s in sub.expansion if not s[2]]
            if len(kept) == 1 and kept[0][0] == start and len(sub.expansion) == 3:
                bracket_rules.append(sub)
                lp, rp = g.term(sub.expansion[0][0]), g.term(sub.expansion[2][0])
                ctx.ob("C01.brackets", "inlined", sub.expand1 and sub.alias is None,
                       f"the bracket rule {sub.origin} is not inlined ('?'): redundant brackets would leave a node in the tree", file=FILE, line=line)
                ctx.ob("C01.brackets", "parentheses", R.words(lp.parsed) == ["("] and R.words(rp.parsed) == [")"],
                       f"the bracket rule uses {lp.regexp!r} / {rp.regexp!r}", file=FILE, line=line)
    ctx.ob("C01.brackets", "rule", len(bracket_rules) == 1, f"expected exactly one bracket rule '( expression )', found {len(bracket_rules)}", file=FILE, line=line)
    ctx.units["rules"] = len(g.rules)
    ctx.units["terminals"] = len(g.terminals)
    ctx.assume("L1: Earley + ambiguity='resolve' without priorities keeps the derivation of the earliest-listed alternative")
    ctx.assume("L2: Lark() defaults parser='earley', lexer='dynamic', ambiguity='resolve'")


def mutants(model):
    from ..sabotage import Mutant, replace_text_once

    g = G.load(model, G.COND_MOD)
    src = g.module.src
    rel = g.module.relpath
    out = []

    def m(name, old, new):
        out.append(Mutant(name, {rel: replace_text_once(src, old, new)}))

    m("swap-xor-and", '| expression "X"i expression -> xor_composition', '| expression "U"i expression -> and_composition ')
    m("symbol-or-after-and", '            | expression "∨" expression -> or_composition\n', '')
    m("drop-i", '"U"i', '"U"')
    m("alias", '"∨" expression -> or_composition', '"∨" expression -> xor_composition')
    m("explicit", 'Lark(GRAMMAR, start="expression")', 'Lark(GRAMMAR, start="expression", ambiguity="explicit")')
    m("ws-inline", "%import common.WS\n%ignore WS", "%import common.WS_INLINE\n%ignore WS_INLINE")
    m("brackets-not-inlined", '?brackets: "("', 'brackets: "("')
    m("then-first", '?expression: expression "O"i expression -> or_composition', '?expression: expression expression -> then_also_composition\n            | expression "O"i expression -> or_composition')
    return out
