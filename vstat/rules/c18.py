"""C18 - key extraction partitions keys by range; all possible evaluations are enumerated."""
from __future__ import annotations

import ast
import itertools

from .. import refsem
from ..evalmodel import Harness, cond_tree
from ..fdai import Interp
from ..fdvalues import EnumVal, Obj, PyRaise, explore
from ..purity import check_path
from ..report import Ctx, Unsupported
from .c10 import PACKAGES, ref_resolve

EXPLANATION = (
    "Integer-region decision table: derive_condition_node_type is interpreted abstractly on one representative key per "
    "region of the integer line cut at every constant found in its own AST (each constant, +-1, 0, huge) and on package "
    "keys; the outcome must be the documented partition (1-499 and 2000-2499 requirement/repeatability, 500-900 hint, "
    "901-999 format, nP package, everything else ValueError). Routing and sanitising: extract_categorized_keys_from_tree, "
    "sanitize and __add__ are interpreted on trees/lists covering every category (each key once, ascending *numeric* order, "
    "extract of a composition = union of the parts' extracts; with and without package/time-condition resolution). Bounded "
    "enumeration: generate_possible_content_evaluation_results is interpreted for n <= 2 (thorough 3) format and m <= 3 "
    "requirement keys: exactly 3^m * 2^n results, pairwise distinct, each the full Cartesian combination. Hidden-state rule."
)
CND = "ahbicht.condition_node_distinction.derive_condition_node_type"
EXTRACT_TREE = "ahbicht.expressions.condition_expression_parser.extract_categorized_keys_from_tree"
EXTRACT = "ahbicht.expressions.condition_expression_parser.extract_categorized_keys"
CKE = "ahbicht.models.categorized_key_extract.CategorizedKeyExtract"
FILE = "src/ahbicht/condition_node_distinction.py"
TYPE_OF = {"rc": "REQUIREMENT_CONSTRAINT", "hint": "HINT", "fc": "FORMAT_CONSTRAINT"}


def want_type(key: str) -> str:
    if key.endswith("P"):
        return "PACKAGE"
    n = int(key)
    if 2000 <= n <= 2499:
        return "REPEATABILITY_CONSTRAINT"
    try:
        return TYPE_OF[refsem.key_kind(key)]
    except ValueError:
        return "raise:ValueError"


def fields_of(obj: Obj):
    return {k: list(v) for k, v in obj.fields.items() if isinstance(v, list)}


def want_extract(e, sanitize=True):
    keys = refsem.keys_of(e)

    def leaves(x, kind):
        if x[0] == kind:
            return [x[1]]
        if x[0] in ("key", "pkg", "time"):
            return []
        return leaves(x[1], kind) + leaves(x[2], kind)

    out = {
        "requirement_constraint_keys": [k for k in keys if refsem.key_kind(k) == "rc"],
        "hint_keys": [k for k in keys if refsem.key_kind(k) == "hint"],
        "format_constraint_keys": [k for k in keys if refsem.key_kind(k) == "fc"],
        "package_keys": leaves(e, "pkg"),
        "time_condition_keys": leaves(e, "time"),
    }
    if sanitize:
        for k in ("requirement_constraint_keys", "hint_keys", "format_constraint_keys"):
            out[k] = sorted(set(out[k]), key=int)
        out["package_keys"] = sorted(set(out["package_keys"]))
        out["time_condition_keys"] = sorted(set(out["time_condition_keys"]))
    return out


def check(ctx: Ctx) -> None:
    model = ctx.model
    fn = model.func(CND)
    consts = sorted({n.value for n in ast.walk(fn.module.tree) if isinstance(n, ast.Constant) and isinstance(n.value, int) and not isinstance(n.value, bool) and abs(n.value) < 10 ** 7})
    reps = sorted({c + d for c in [*consts, 1, 499, 500, 900, 901, 999, 1000, 1999, 2000, 2499, 2500] for d in (-1, 0, 1)} | {0, 250, 700, 950, 1500, 2250, 99999})
    reps = [r for r in reps if r >= 0]
    table = {}
    for key in [str(r) for r in reps] + ["1P", "123P", "0P"]:
        def run(ch, key=key):
            it = Interp(model, ch)
            try:
                res = it.call(it.funcval(CND), [key], {}, None, None)
            except PyRaise as err:
                return f"raise:{err.exc.cls.rsplit('.', 1)[-1]}"
            return res.name if isinstance(res, EnumVal) else repr(res)

        outs = sorted({o for _, o in explore(run)})
        ctx.count()
        table[key] = outs
        ctx.ob("C18.ranges", key, outs == [want_type(key)], f"derive_condition_node_type({key!r}) gives {outs}, documented: {want_type(key)}", file=FILE, line=fn.node.lineno, function=fn.qualname)
    ctx.sample({"derive_condition_node_type": {k: v[0] for k, v in table.items() if k in ("0", "1", "499", "500", "900", "901", "999", "1000", "2000", "2499", "2500", "1P")}})
    # ---- routing, sanitising, union
    exprs = ["[2] U [1] U ([2] O [10])", "[501] U [3][901] O [100][902] U [3]", "[2400] U [20] X [5]", "[7P] U [1] O [UB1] U [3P] U [7P]",
             "[950][499] U [500] O [900][901]", "[12] U [9] U [111] U [9]", "[UB3] U [UB1] O [1P0..1]", "[UB1] U ([2] O [UB1]) U [UB2][UB1]", "[501] U [501] O [7P] U [7P1..2]"]
    for text in exprs:
        e = refsem.parse_condition(text)
        for sanitize in (True, False):
            def run(ch, e=e, sanitize=sanitize):
                h = Harness(model, ch)
                try:
                    return ("ret", fields_of(h.call(EXTRACT_TREE, cond_tree(e), sanitize=sanitize)))
                except PyRaise as err:
                    return ("raise", err.exc.cls)

            outs = [o for _, o in explore(run)]
            ctx.count()
            want = want_extract(e, sanitize)
            ctx.ob("C18.route", f"{text}:sanitize={sanitize}", outs == [("ret", want)],
                   f"extract_categorized_keys_from_tree({text}, sanitize={sanitize}) gives {outs}, expected {want} (each key once in ascending numeric order when sanitised)",
                   file="src/ahbicht/expressions/condition_expression_parser.py", function="extract_categorized_keys_from_tree")
    single_kind = ["[UB1]", "[UB2] U [UB1]", "[7P]", "[501]", "[901]", "[1]"]  # summands with keys of one category only
    pairs = list(itertools.combinations(exprs[:5], 2)) + [(a, b) for a in single_kind for b in ("[1] U [2]", "[UB3]", "[9P]") if a != b] + \
        [(b, a) for a in single_kind[:3] for b in ("[1] U [2]",)]
    # summands as the extraction hands them out: sanitised, and unsanitised (the default of the tree-level function: keys in
    # order of occurrence, with repetitions) - the sum is the sanitised extract of the composed expression either way (C18-r1)
    for a, b, san in [(a_, b_, True) for a_, b_ in pairs] + [(a_, b_, False) for a_, b_ in pairs[:12]]:
        ea, eb = refsem.parse_condition(a), refsem.parse_condition(b)

        def run(ch, ea=ea, eb=eb, san=san):
            h = Harness(model, ch)
            it = h.it
            try:
                xa = h.call(EXTRACT_TREE, cond_tree(ea), sanitize=san)
                xb = h.call(EXTRACT_TREE, cond_tree(eb), sanitize=san)
                before = (fields_of(xa), fields_of(xb))
                total = fields_of(it.binop(ast.Add(), xa, xb, None, None))
                if (fields_of(xa), fields_of(xb)) != before:
                    return ("operands-changed", fields_of(xa), fields_of(xb))
                return ("ret", total)
            except PyRaise as err:
                return ("raise", err.exc.cls)

        outs = [o for _, o in explore(run)]
        ctx.count()
        want = want_extract(("and", ea, eb), True)
        ctx.ob("C18.union", f"({a}) + ({b}){'' if san else ' [unsanitised summands]'}", outs == [("ret", want)], f"extract({a}) + extract({b}){'' if san else ' (summands extracted with sanitize=False)'} gives {outs}, the extract of the composed expression is {want}",
               file="src/ahbicht/models/categorized_key_extract.py", function="CategorizedKeyExtract.__add__")
    # out-of-range keys are rejected
    for text in ("[0]", "[1000]", "[1999]", "[2500]"):
        def run(ch, text=text):
            h = Harness(model, ch)
            try:
                return ("ret", fields_of(h.call(EXTRACT_TREE, cond_tree(("key", text[1:-1])), sanitize=True)))
            except PyRaise as err:
                return ("raise", err.exc.cls)

        outs = [o for _, o in explore(run)]
        ctx.count()
        ctx.ob("C18.route", f"reject:{text}", outs == [("raise", "builtins.ValueError")], f"key {text} is outside every documented range but extraction gives {outs}", file=FILE)
    # with resolution of packages / time conditions
    for text in ("[1P] U [4P] O [11]", "Muss [7P] U [UB2] Soll [6P]", "[UB1] U [901]"):
        for rp, rt in ((True, True), (False, False), (True, False)):
            def run(ch, text=text, rp=rp, rt=rt):
                h = Harness(model, ch, packages=PACKAGES)
                try:
                    return ("ret", fields_of(h.call(EXTRACT, text, resolve_packages=rp, replace_time_conditions=rt)))
                except PyRaise as err:
                    return ("raise", err.exc.cls)

            outs = [o for _, o in explore(run)]
            try:
                parts = [c for (_k, _w, c) in refsem.parse_ahb(text)]
            except refsem.RefSyntaxError:
                parts = [text]
            resolved = [ref_resolve(refsem.parse_condition(c), PACKAGES, rp, rt) for c in parts if c]
            whole = resolved[0]
            for r in resolved[1:]:
                whole = ("and", whole, r)
            ctx.count()
            want = want_extract(whole, True)
            ctx.ob("C18.resolved", f"{text}:packages={rp},time={rt}", outs == [("ret", want)], f"extract_categorized_keys({text!r}, resolve_packages={rp}, replace_time_conditions={rt}) gives {outs}, expected {want}",
                   file="src/ahbicht/expressions/condition_expression_parser.py", function="extract_categorized_keys")
    # ---- enumeration of possible content evaluation results (bounded)
    max_fc = 2 if ctx.tier == "quick" else 3
    for n_fc, n_rc in itertools.product(range(max_fc + 1), range(4)):
        fcs = ["932", "950", "999"][:n_fc]
        rcs = ["9", "10", "2000"][:n_rc]  # ascending numerically, not lexicographically

        def run(ch, fcs=fcs, rcs=rcs):
            h = Harness(model, ch)
            it = h.it
            obj = Obj(CKE, {"hint_keys": ["501"], "format_constraint_keys": list(fcs), "requirement_constraint_keys": list(rcs), "package_keys": [], "time_condition_keys": []})
            try:
                res = it.call(it.getattr(obj, "generate_possible_content_evaluation_results", None, None), [], {}, None, None)
            except PyRaise as err:
                return ("raise", err.exc.cls)
            combos = []
            for cer in res:
                rc = tuple(sorted((k, v.name) for k, v in cer.fields["requirement_constraints"].items()))
                fc = tuple(sorted((k, v.fields["format_constraint_fulfilled"]) for k, v in cer.fields["format_constraints"].items()))
                combos.append((rc, fc))
            return ("ret", combos)

        outs = [o for _, o in explore(run)]
        ctx.count()
        want = set()
        if n_fc or n_rc:
            for rv in itertools.product(("FULFILLED", "UNFULFILLED", "UNKNOWN"), repeat=n_rc):
                for fv in itertools.product((True, False), repeat=n_fc):
                    want.add((tuple(sorted(zip(rcs, rv))), tuple(sorted(zip(fcs, fv)))))
        ok = len(outs) == 1 and outs[0][0] == "ret" and len(outs[0][1]) == len(want) and set(outs[0][1]) == want
        got_n = len(outs[0][1]) if outs and outs[0][0] == "ret" else outs
        ctx.ob("C18.enumerate", f"fc={n_fc},rc={n_rc}", ok,
               f"generate_possible_content_evaluation_results with {n_rc} requirement and {n_fc} format keys yields {got_n} results"
               f"{'' if not isinstance(got_n, int) else f' ({len(set(outs[0][1]))} distinct)'}; the Cartesian product has {len(want)}",
               file="src/ahbicht/models/categorized_key_extract.py", function="CategorizedKeyExtract.generate_possible_content_evaluation_results")
    ctx.soft(lambda: check_path(ctx, "C18.state", [EXTRACT_TREE, EXTRACT_TREE.rsplit("_from_tree", 1)[0], f"{CKE}.generate_possible_content_evaluation_results", f"{CKE}.__add__", f"{CKE}.sanitize", CND],
               "key extraction and result generation must not depend on earlier calls"))
    ctx.assume("the enumeration clause is decided for n <= 2/3 format keys and m <= 3 requirement keys only (bounded)")
