"""C11 - parsing is a pure function of the string, whatever happened before."""
from __future__ import annotations

import ast
from typing import Any, List, Set

from .. import grammar as G
from ..evalmodel import token, tree
from ..fdai import Frame, Interp
from ..fdvalues import Chooser, ClassVal, FuncVal, Obj, Opaque, PyRaise, explore
from ..purity import check_path, hidden_state_sites
from ..report import Ctx, Unsupported
from ..srcmodel import dotted, norm

EXPLANATION = (
    "Ownership rule on memoised values, decided by abstract interpretation of the *module-level binding* of both parse "
    "functions: the decorator stack found in the source is applied abstractly (functools.lru_cache modelled as a keyed "
    "store with its maxsize and eviction, tree_copy interpreted from its AST), the Lark parser is replaced by 'returns a "
    "fresh nested tree for the string'. Over call histories (miss, hit, fresh strings, more distinct strings than maxsize, "
    "re-parse after eviction) interleaved with in-place edits of every returned tree at every depth (append, replace, "
    "remove), each returned tree must be structurally the parser's tree and share no mutable object (Tree node or "
    "children list) with the cache entry or with any earlier result. Plus: no hidden state in the wrapper (closure/"
    "module stores), memoising decorators nowhere else."
)
UTIL = "src/ahbicht/utility_functions.py"
ALLOWED_MEMO_FUNCS = (f"{G.COND_MOD}.parse_condition_expression_to_tree", f"{G.AHB_MOD}.parse_ahb_expression_to_single_requirement_indicator_expressions")
PARSERS = [
    (G.COND_MOD, "parse_condition_expression_to_tree", "src/ahbicht/expressions/condition_expression_parser.py"),
    (G.AHB_MOD, "parse_ahb_expression_to_single_requirement_indicator_expressions", "src/ahbicht/expressions/ahb_expression_parser.py"),
]


def fresh_tree(text: str) -> Obj:
    """What the Lark parser returns for `text` in this model: a new three-level tree whose leaves carry the text."""
    return tree("root", [tree("part", [token("A", text), tree("leafnode", [token("B", text + "#1")])]),
                         tree("part", [token("A", text + "#2"), token("C", text + "#3")])])


def mutable_ids(v: Any, acc: Set[int]) -> Set[int]:
    if isinstance(v, Obj) and v.cls == "lark.Token":
        acc.add(id(v))  # lark Tokens have assignable attributes (type, value): a shared Token is shared mutable state
    if isinstance(v, Obj) and v.cls == "lark.Tree":
        acc.add(id(v))
        ch = v.fields.get("children")
        if isinstance(ch, list):
            acc.add(id(ch))
            for c in ch:
                mutable_ids(c, acc)
    elif isinstance(v, list):
        acc.add(id(v))
        for c in v:
            mutable_ids(c, acc)
    return acc


def shape(v: Any) -> Any:
    if isinstance(v, Obj) and v.cls == "lark.Tree":
        return ("T", v.fields.get("data"), tuple(shape(c) for c in (v.fields.get("children") or [])))
    if isinstance(v, Obj) and v.cls == "lark.Token":
        return ("t", v.fields.get("type"), v.fields.get("value"))
    return repr(v)


def vandalise(v: Any) -> None:
    """In-place edits at every depth: append, replace, remove children, re-label tokens."""
    if isinstance(v, Obj) and v.cls == "lark.Token":
        v.fields["value"] = "edited"
        v.fields["type"] = "EDITED"
    if isinstance(v, Obj) and v.cls == "lark.Tree":
        ch = v.fields.get("children")
        if isinstance(ch, list):
            for c in list(ch):
                vandalise(c)
            if ch:
                ch[0] = token("JUNK", "replaced")
            if len(ch) > 1:
                del ch[-1]
            ch.append(token("JUNK", "appended"))
        v.fields["data"] = "vandalised"


def bind_public(it: Interp, fn, parser_results: list):
    """Value bound to the function's name at module level: decorators applied bottom-up."""
    val: Any = FuncVal(fn=fn, module=fn.module)
    frame = Frame(None, fn.module, None, set())
    for d in reversed(fn.node.decorator_list):
        dec = it.eval(d, frame)
        val = it.call(dec, [val], {}, d, frame)
    return val


def check_parser(ctx: Ctx, modname: str, fname: str, file: str) -> None:
    model = ctx.model
    fn = model.func(f"{modname}.{fname}")
    g = G.load(model, modname)
    G.report_options(ctx, "C11.pure", g, file)
    problems: List[str] = []

    def run(ch: Chooser):
        it = Interp(model, ch)
        parser_obj = Opaque("larkparser", kind="lark.Lark", truthy=True, not_none=True)
        it.ext_handlers["lark.Lark"] = lambda _it, a, k: parser_obj
        produced: List[Obj] = []

        def opaque_call(_it, func, args, kwargs):
            if func.label == "larkparser.parse":
                t = fresh_tree(args[0] if isinstance(args[0], str) else repr(args[0]))
                produced.append(t)
                return t
            raise Unsupported(f"call of {func.label}")

        it.ext_handlers["opaque-call"] = opaque_call

        def deepcopy(_it, args, kwargs):
            # lemma: copy.deepcopy recurses per nesting level and raises RecursionError for very deep trees; here: the trees of "deep..." strings
            v_ = args[0]
            leaves_ = [c for c in (v_.fields.get("children") or [])] if isinstance(v_, Obj) and v_.cls == "lark.Tree" else []
            first_ = leaves_[0].fields.get("children", [None])[0] if leaves_ and isinstance(leaves_[0], Obj) and leaves_[0].cls == "lark.Tree" else None
            if isinstance(first_, Obj) and isinstance(first_.fields.get("value"), str) and first_.fields["value"].startswith("deep"):
                raise PyRaise(Obj("builtins.RecursionError", {"args": ("maximum recursion depth exceeded",)}))
            return _it.deepcopy(v_, {})

        it.ext_handlers["copy.deepcopy"] = deepcopy
        # the raw function must not go through it.call's decorator check: summaries keyed by qualname are not used;
        # instead decorators are applied explicitly here
        public = it.funcval(fn.qualname)
        maxsize = None
        for d in fn.node.decorator_list:
            if isinstance(d, ast.Call) and (dotted(d.func) or "").endswith("lru_cache"):
                for kw in d.keywords:
                    if kw.arg == "maxsize" and isinstance(kw.value, ast.Constant):
                        maxsize = kw.value.value
        issues: List[str] = []
        handed_out: List[Obj] = []
        seen_ids: Set[int] = set()
        keepalive: List[Any] = []  # ids are only unique while the objects live

        def all_objects(v: Any) -> None:
            keepalive.append(v)
            if isinstance(v, Obj):
                for x in v.fields.values():
                    if isinstance(x, (Obj, list)):
                        all_objects(x)
            elif isinstance(v, list):
                for x in v:
                    if isinstance(x, (Obj, list)):
                        all_objects(x)

        def parse(text: str, what: str, by_keyword: bool = False) -> None:
            before = len(produced)
            try:
                r = it.call(public, [], {fn.params[0]: text}, None, None) if by_keyword else it.call(public, [text], {}, None, None)
            except PyRaise as err:
                if err.exc.cls == "builtins.RecursionError" and text.startswith("deep"):
                    return  # the same exception for the same string every time: still a function of the string
                issues.append(f"{what}: parse({text!r}) raises {err.exc.cls}")
                return
            if shape(r) != shape(fresh_tree(text)):
                issues.append(f"{what}: parse({text!r}) returns {shape(r)} instead of the parser's tree for that string")
            all_objects(r)
            for t_ in produced[before:]:
                all_objects(t_)
            ids = mutable_ids(r, set())
            cached_ids: Set[int] = set()
            for t in produced:
                mutable_ids(t, cached_ids)
            if ids & cached_ids:
                issues.append(f"{what}: the tree returned for {text!r} shares a node or children list with the parser's (cached) tree")
            if ids & seen_ids:
                issues.append(f"{what}: the tree returned for {text!r} shares a node or children list with a tree returned earlier")
            seen_ids.update(ids)
            handed_out.append(r)

        parse("s1", "first parse (cache miss)")
        parse("s1", "second parse (cache hit)")
        vandalise(handed_out[0])
        parse("s1", "parse after editing the first returned tree in place")
        vandalise(handed_out[1])
        vandalise(handed_out[2])
        parse("s1", "parse after editing all returned trees in place")
        parse("s2", "fresh string")
        vandalise(handed_out[-1])
        parse("s2", "fresh string again after editing")
        parse("deep1", "tree too deep for copy.deepcopy (cache miss)")
        parse("deep1", "tree too deep for copy.deepcopy (cache hit)")
        if handed_out and shape(handed_out[-1]) == shape(fresh_tree("deep1")):
            vandalise(handed_out[-1])
        parse("deep1", "tree too deep for copy.deepcopy, after editing what was returned")
        parse("s3", "string passed by keyword (cache miss)", by_keyword=True)
        parse("s3", "string passed by keyword (cache hit)", by_keyword=True)
        vandalise(handed_out[-1])
        parse("s3", "string passed positionally after keyword calls")
        parse("s3", "string passed by keyword after an in-place edit", by_keyword=True)
        n = (maxsize if isinstance(maxsize, int) else 128) + 3
        if ctx.tier == "quick":
            n = min(n, 40) if not isinstance(maxsize, int) else n
        for i in range(n):
            before_len = len(handed_out)
            parse(f"fill{i}", f"distinct string #{i} (cache filling / eviction)")
            if len(handed_out) > before_len and i % 7 == 0:
                vandalise(handed_out[-1])
        parse("s1", "re-parse after eviction")
        parse("fill0", "re-parse of an evicted and edited string")
        parse(f"fill{n - 1}", "re-parse of a recently cached and possibly edited string")
        return issues

    for _trace, issues in explore(run):
        problems.extend(issues)
    ctx.count(1)
    uniq = sorted(set(problems))
    ctx.ob("C11.escape", fname, not uniq, f"{fname}: " + "; ".join(uniq[:4]) + (f" (+{len(uniq) - 4} more)" if len(uniq) > 4 else ""),
           file=file, line=fn.node.lineno, function=fn.qualname)
    ctx.sample({"function": fname, "decorators": [norm(d) for d in fn.node.decorator_list], "history_issues": uniq[:3]})


def check(ctx: Ctx) -> None:
    model = ctx.model
    for modname, fname, file in PARSERS:
        fn = model.func(f"{modname}.{fname}")
        # purity of the cached function: reads only its parameter and module-level names bound once
        free = set()
        for n in ast.walk(fn.node):
            if isinstance(n, ast.Name) and isinstance(n.ctx, ast.Load) and n.id not in fn.params:
                free.add(n.id)
        locals_ = {n.id for n in ast.walk(fn.node) if isinstance(n, ast.Name) and isinstance(n.ctx, ast.Store)}
        for name in sorted(free - locals_):
            res = model.resolve_name(fn.module, name)
            if isinstance(res, tuple) and res[0] == "modvar":
                ctx.ob("C11.pure", f"{fname}:{name}", model.module_constant(res[1], res[2]) is not None,
                       f"{fname} reads the module variable {name}, which is bound more than once: the cached value would depend on more than the string", file=file, function=fn.qualname)
        for kind, node, desc in hidden_state_sites(model, fn):
            if kind != "memo":
                ctx.ob("C11.pure", f"{fname}::{kind}", False, f"{fname} {desc}", file=file, line=node.lineno, function=fn.qualname)
    ctx.soft(lambda: check_path(ctx, "C11.state", ["ahbicht.utility_functions.tree_copy", *[f"{m}.{f}" for m, f, _ in PARSERS],
                                  "ahbicht.expressions.expression_resolver.parse_expression_including_unresolved_subexpressions"],
               "a parse result must depend on the string alone"))
    # the cached functions are only reachable through their copying wrapper: nothing unwraps them
    for fn_ in model.functions.values():
        if fn_.module.name.endswith("_vstat_stub"):
            continue
    for mod_ in model.modules.values():
        if mod_.name.endswith("_vstat_stub"):
            continue
        for n_ in ast.walk(mod_.tree):
            bypass = (isinstance(n_, ast.Attribute) and n_.attr == "__wrapped__") or \
                (isinstance(n_, ast.Call) and isinstance(n_.func, (ast.Name, ast.Attribute)) and model.resolve_expr(mod_, n_.func) == "ext:inspect.unwrap")
            if bypass:
                ctx.ob("C11.only", f"{mod_.name}::unwrap::{norm(n_, 50)}", False,
                       f"{mod_.name} reaches behind a decorator ({norm(n_, 80)}): a caller that obtains the lru_cached parse function itself receives the cache entry, not a copy",
                       file=f"src/{mod_.relpath}" if not str(mod_.relpath).startswith("src/") else str(mod_.relpath), line=n_.lineno)
    # a memoising wrapper built by a plain call (not as a decorator): lru_cache(...)(f), cache(f) - at module, class or function level
    allowed_decorators = set()
    for q_ in ALLOWED_MEMO_FUNCS:
        f_ = model.functions.get(q_)
        if f_ is not None:
            for d_ in f_.node.decorator_list:
                allowed_decorators.update(id(x_) for x_ in ast.walk(d_))
    for mod_ in model.modules.values():
        if mod_.name.endswith("_vstat_stub"):
            continue
        for n_ in ast.walk(mod_.tree):
            if isinstance(n_, ast.Call) and isinstance(n_.func, (ast.Name, ast.Attribute)) and id(n_) not in allowed_decorators:
                res_ = model.resolve_expr(mod_, n_.func)
                if res_ in ("ext:functools.lru_cache", "ext:functools.cache", "ext:functools.cached_property"):
                    deco_of = [f_ for f_ in model.functions.values() if f_.module is mod_ and any(n_ is d_ or n_ in list(ast.walk(d_)) for d_ in f_.node.decorator_list)]
                    if deco_of:
                        continue  # decorators are judged by the rule below (function by function)
                    ctx.ob("C11.only", f"{mod_.name}::memo-call::{norm(n_, 50)}", False,
                           f"{mod_.name} builds a memoising wrapper by a call ({norm(n_, 80)}): results would be shared between callers without the copying wrapper",
                           file=str(mod_.relpath) if str(mod_.relpath).startswith("src/") else f"src/{mod_.relpath}", line=n_.lineno)
    # memoisation nowhere else
    parse_qualnames = {f"{m}.{f}" for m, f, _ in PARSERS}
    for fn in model.functions.values():
        reach = set(model.reachable(fn))
        if not (reach & parse_qualnames):
            continue  # memoising something that never holds a parse tree is none of this property's business
        for kind, node, desc in hidden_state_sites(model, fn):
            if kind == "memo":
                ctx.ob("C11.only", fn.qualname, False, f"{fn.qualname}: {desc} - only the two parse functions may be memoised (behind tree_copy)", file=fn.file, line=node.lineno, function=fn.qualname)
    for fn in model.functions.values():
        if fn.module.name.endswith("_vstat_stub") or fn.qualname.startswith("ahbicht.utility_functions.tree_copy"):
            continue
        for n in ast.walk(fn.node):
            if isinstance(n, ast.Attribute) and n.attr in ("__wrapped__", "cache_clear", "cache_parameters"):
                ctx.ob("C11.only", f"{fn.qualname}::{n.attr}", False,
                       f"{fn.qualname} reaches behind the copying wrapper via .{n.attr} ({norm(n, 80)}): the cached tree itself (or the cache) gets into callers' hands",
                       file=fn.file, line=n.lineno, function=fn.qualname)
    ctx.ob("C11.only", "scan", True, "")
    for modname, fname, file in PARSERS:
        ctx.soft(lambda modname=modname, fname=fname, file=file: check_parser(ctx, modname, fname, file))
    ctx.assume("L4: Tree.copy() shares the children list, copy.deepcopy copies recursively; Tokens are immutable strings")
    ctx.assume("Lark.parse is stateless across calls (trusted)")
