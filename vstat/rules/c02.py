"""C02 - the parsers accept exactly the documented language; everything else is a SyntaxError."""
from __future__ import annotations

import ast
import itertools

from .. import grammar as G
from .. import refsem
from .. import regexlang as R
from ..evalmodel import Harness, ahb_tree, cond_tree, run_is_valid, tree_to_ast
from ..fdai import Interp
from ..fdvalues import Chooser, FuncVal, Obj, Opaque, PyRaise, StrT, explore
from ..report import AnalysisError, Ctx, Unsupported
from ..srcmodel import dotted, norm

EXPLANATION = (
    "Language side: every terminal of both grammars is compared (DFA over the whole Unicode alphabet, shortest witness) "
    "with the documented terminal language; the token-level language of the condition grammar is compared with the "
    "reference grammar e -> e OP e | e e | ( e ) | [K] | [P] | [P R] | [T] on all sentences up to the tier's length; "
    "greedy-safety of the dynamic lexer (an accepted terminal match can only be extended by characters that cannot start "
    "what follows). Exception side: the bodies of the two parse functions are interpreted abstractly with the Lark parser "
    "replaced by 'returns a tree or raises any of UnexpectedCharacters/UnexpectedEOF/TypeError' and must return the tree "
    "or raise SyntaxError; the resolver and the str branch of is_valid_expression are interpreted abstractly (parse "
    "functions summarised by the reference parser, Transformer per L3) on a corpus of well-formed, nearly well-formed and "
    "garbage strings: the outcome must be a tree resp. SyntaxError resp. (False, message), exactly as the reference says."
)
COND_FILE = "src/ahbicht/expressions/condition_expression_parser.py"
AHB_FILE = "src/ahbicht/expressions/ahb_expression_parser.py"
RES_FILE = "src/ahbicht/expressions/expression_resolver.py"
RESOLVER = "ahbicht.expressions.expression_resolver.parse_expression_including_unresolved_subexpressions"
DOC_COND = {
    "CONDITION_KEY": "[0-9]+",
    "PACKAGE_KEY": "[0-9]+P",
    "REPEATABILITY": r"[0-9]+\.\.[1-9][0-9]*",
    "TIME_CONDITION_KEY": "UB[123]",
}
DOC_AHB = {
    "MODAL_MARK": "[Mm]([Uu][Ss][Ss])?|[Ss]([Oo][Ll][Ll])?|[Kk]([Aa][Nn][Nn])?",
    "PREFIX_OPERATOR": "[XxOoUu]",
}
LARK_RAISES = ["lark.exceptions.UnexpectedCharacters", "lark.exceptions.UnexpectedEOF", "builtins.TypeError"]


def _terminal_rule(ctx: Ctx, g: G.Grammar, name: str, doc: str, file: str) -> None:
    t = g.term(name)
    ref = R.parse(doc)
    ctx.count()
    diff = R.difference_witness(t.parsed, ref)
    what = ""
    if diff is not None:
        w, side = diff
        what = (f"terminal {name} = /{t.regexp}/ " + ("accepts" if side == "only-first" else "rejects") +
                f" {w!r} (code points {[hex(ord(c)) for c in w]}); documented language: /{doc}/")
    ctx.ob("C02.terminals", f"{g.module.name.rsplit('.', 1)[-1]}::{name}", diff is None, what, file=file, line=g.grammar_assign.lineno)
    ctx.sample({"terminal": name, "regexp": t.regexp, "documented": doc, "equal": diff is None})


def _classify_cond(g: G.Grammar):
    from .c01 import operator_class

    cache = {}

    def classify(tname: str) -> str:
        if tname not in cache:
            if tname in DOC_COND:
                cache[tname] = tname
            else:
                cls = operator_class(g, tname)
                if cls:
                    cache[tname] = f"OP_{cls}"
                else:
                    words = R.words(g.term(tname).parsed)
                    cache[tname] = {"(": "LPAR", ")": "RPAR", "[": "LSQB", "]": "RSQB"}.get(words[0], f"T:{tname}") if words and len(words) == 1 else f"T:{tname}"
        return cache[tname]

    return classify


REF_PRODS = {
    "e": {("e", "OP_or", "e"), ("e", "OP_xor", "e"), ("e", "OP_and", "e"), ("e", "e"), ("LPAR", "e", "RPAR"),
          ("LSQB", "CONDITION_KEY", "RSQB"), ("LSQB", "PACKAGE_KEY", "RSQB"), ("LSQB", "PACKAGE_KEY", "REPEATABILITY", "RSQB"),
          ("LSQB", "TIME_CONDITION_KEY", "RSQB")},
}


def _parse_function_rule(ctx: Ctx, modname: str, fname: str, file: str) -> None:
    model = ctx.model
    g = G.load(model, modname)
    fn = model.func(f"{modname}.{fname}")
    outcomes = {}

    def run(ch: Chooser):
        it = Interp(model, ch)
        parser_obj = Opaque("larkparser", kind="lark.Lark", truthy=True, not_none=True)
        it.ext_handlers["lark.Lark"] = lambda _it, a, k: parser_obj
        tree_obj = Obj("lark.Tree", {"data": "x", "children": []})

        def opaque_call(_it, func, args, kwargs):
            if func.label == "larkparser.parse":
                c = ch.choose("lark.parse outcome", 1 + len(LARK_RAISES))
                if c == 0:
                    return tree_obj
                raise PyRaise(Obj(LARK_RAISES[c - 1], {"args": ("lark",)}))
            raise Unsupported(f"call of {func.label}")

        it.ext_handlers["opaque-call"] = opaque_call
        arg = StrT((Opaque("input"),))
        try:
            res = it.run_function(FuncVal(fn=fn, module=fn.module), [arg], {})
            return ("ret", res is tree_obj)
        except PyRaise as err:
            return ("raise", err.exc.cls)

    for trace, out in explore(run):
        choice = next((c for (lbl, c, _n) in trace if lbl == "lark.parse outcome"), None)
        outcomes.setdefault(choice, set()).add(out)
    ctx.require(0 in outcomes, f"{fname}: the call {g.parser_var}.parse(...) was not reached by the abstract run")
    ctx.count(len(outcomes))
    ctx.ob("C02.convert", f"{fname}::success", outcomes.get(0) == {("ret", True)},
           f"{fname}: when the Lark parser returns a tree the function gives {outcomes.get(0)} instead of that tree", file=file, line=fn.node.lineno, function=fn.qualname)
    for i, exc in enumerate(LARK_RAISES, 1):
        got = outcomes.get(i, set())
        ctx.ob("C02.convert", f"{fname}::{exc.rsplit('.', 1)[-1]}", got == {("raise", "builtins.SyntaxError")},
               f"{fname}: when the Lark parser raises {exc} (lemma L2) the function gives {sorted(got)} instead of raising SyntaxError",
               file=file, line=fn.node.lineno, function=fn.qualname)


WELL_FORMED_COND = ["[1]", "[1] U [2]", "[1]u[2]o[3]x[4]", "[1]∧[2]∨[3]⊻[4]", "([1])", "(([1] O [2]))U[3]", "[1][901]", "[1P]", "[12P0..1]",
                    "[UB1]", "[UB3] U [1]", "[1] ([2] O [3])", " [ 1 ] U\t[2]\n", "[1]U([2]O[3])[901]X[4]", "[10P1..5]U[UB2][931]"]
WELL_FORMED_AHB = ["Muss", "X", "u", "k", "Muss [1]", "muss[1]u[2]", "Muss[1] Soll[2] Kann[3]", "M[1]S[2]K", "Muss [1] Kann", "X [1] U [2]",
                   "o[1]", "Soll ([1] O [2])[901]", "Muss [UB1]", "Kann [1P] U [2]", "SOLL[3]kAnN[4]", "U[1]", "Muss[1P0..1]"]
MALFORMED = ["", " ", "\t\n", "[", "]", "[]", "[1", "1]", "[1]]", "([1]", "[1])", "()", "[1] U", "U [1] U", "[1] U U [2]", "[1] N [2]", "[a]", "[1.5]",
             "[P]", "[1P2]", "[1P0..0]", "[1P..2]", "[UB4]", "[ub1]", "[UB1P]", "foo", "Muss [1", "Muss [1]U", "Muss ([1]", "X[1])", "Muss ([1] Soll [2])",
             "Muss [1] Soll", "Muss Kann", " Muss[1]", "Mus[2]", "Muss[1] X[2]", "X[1] Muss[2]", "Muss [1] Soll [2]X", "Muss []", "Musss[1]", "XX[1]",
             "Muss [1] Kann ", "[1] Muss", "Muss[1]Kann[", "Muss [2]U[3] Soll ([1] Kann [4]", "[1]\x00", "[١]", "M uss[1]",
             # whitespace that Python's str.strip()/\s know but the grammars do not ignore
             "Muss\u00a0[1]", "Muss [1]\u2003", "Muss\u3000[1] U [2]", "[1]\u00a0U [2]", "Muss [1]\x0b", "Muss [1]\x1c", "Muss [1]\x85U [2]", "Muss [1]\u2028", "\u00a0[1]",
             # no bracket at all / case of the package and time condition letters
             "Muss 1", "Muss ()", "X U", "Soll UB1", "Muss 1P", "[1p]", "[ub1]", "Muss [17]U[uB3]", "[1p0..1]"]


def _ref_accepts(text: str) -> bool:
    try:
        refsem.parse_ahb(text)
        return True
    except refsem.RefSyntaxError:
        try:
            refsem.parse_condition(text)
            return True
        except refsem.RefSyntaxError:
            return False


def _resolver_rule(ctx: Ctx) -> None:
    model = ctx.model
    corpus = [*WELL_FORMED_COND, *WELL_FORMED_AHB, *MALFORMED]
    if ctx.tier == "thorough":
        toks = ["[1]", "[2P]", "[UB1]", "(", ")", "U", "o", "∨", " ", "Muss", "S", "k", "X", "[", "]", "foo"]
        corpus += ["".join(c) for n in (2, 3) for c in itertools.product(toks, repeat=n)]
    seen = set()
    for text in corpus:
        if text in seen:
            continue
        seen.add(text)
        want = _ref_accepts(text)

        def run(ch, text=text):
            h = Harness(model, ch)
            try:
                res = h.call(RESOLVER, text)
                return ("ret", isinstance(res, Obj) and res.cls == "lark.Tree")
            except PyRaise as err:
                return ("raise", err.exc.cls)

        outs = {o for _, o in explore(run)}
        ctx.count()
        if want:
            ok = outs == {("ret", True)}
            what = f"the well-formed expression {text!r} is not turned into a tree by the resolver: {sorted(outs)}"
        else:
            ok = outs == {("raise", "builtins.SyntaxError")}
            what = f"the malformed string {text!r} must be rejected by the resolver with SyntaxError, got {sorted(outs)}"
        ctx.ob("C02.resolver", repr(text), ok, what, file=RES_FILE, function="parse_expression_including_unresolved_subexpressions")
        if not want and len(text) < 40 and ctx.tier == "quick" or (not want and text in MALFORMED):
            res, _n = run_is_valid(model, text)
            ctx.count()
            ok = isinstance(res, tuple) and len(res) == 2 and res[0] is False and isinstance(res[1], (str, StrT)) and bool(res[1])
            ctx.ob("C02.validity", repr(text), ok, f"is_valid_expression({text!r}) must report (False, message) for a malformed string, got {res!r}",
                   file="src/ahbicht/content_evaluation/__init__.py", function="is_valid_expression")
    ctx.units["resolver_corpus"] = len(seen)


LOG_METHODS = {"debug": 0, "info": 0, "warning": 0, "warn": 0, "error": 0, "critical": 0, "exception": 0, "fatal": 0, "log": 1}
ENTRY_POINTS = [f"{G.COND_MOD}.parse_condition_expression_to_tree", f"{G.AHB_MOD}.parse_ahb_expression_to_single_requirement_indicator_expressions",
                "ahbicht.expressions.expression_resolver.parse_expression_including_unresolved_subexpressions", "ahbicht.content_evaluation.is_valid_expression"]


def eager_log_formatters(model) -> list:
    """Code that formats log records *outside* a handler's emit() (where logging swallows errors): logging.Filter
    subclasses / filter callables and LogRecord factories that call getMessage() or apply `%` to record.msg, and
    are installed somewhere in the package (addFilter / setLogRecordFactory)."""
    installs = []
    for mod in model.modules.values():
        for n in ast.walk(mod.tree):
            if isinstance(n, ast.Call) and isinstance(n.func, ast.Attribute) and n.func.attr in ("addFilter", "setLogRecordFactory"):
                installs.append((mod, n))
            elif isinstance(n, ast.Call) and (dotted(n.func) or "").endswith("setLogRecordFactory"):
                installs.append((mod, n))
    if not installs:
        return []
    eager = []
    for fn in model.functions.values():
        for n in ast.walk(fn.node):
            if isinstance(n, ast.Call) and isinstance(n.func, ast.Attribute) and n.func.attr == "getMessage":
                eager.append((fn, n))
            elif isinstance(n, ast.BinOp) and isinstance(n.op, ast.Mod) and isinstance(n.left, ast.Attribute) and n.left.attr == "msg":
                eager.append((fn, n))
    return eager


def unsafe_log_calls(model, fn) -> list:
    """logging calls whose *format string* is built from run-time values while format arguments are passed as well:
    logging then evaluates `<text containing the value> % args`, which raises for a stray '%' in the value."""
    out = []
    for n in walk_shallow_fn(fn.node):
        if not (isinstance(n, ast.Call) and isinstance(n.func, ast.Attribute) and n.func.attr in LOG_METHODS):
            continue
        recv = (dotted(n.func.value) or "")
        if "log" not in recv.lower():
            continue
        skip = LOG_METHODS[n.func.attr]
        if len(n.args) <= skip + 1:
            continue  # no format arguments: logging does not apply '%'
        msg = n.args[skip]
        dynamic = (isinstance(msg, ast.JoinedStr) and any(isinstance(v, ast.FormattedValue) for v in msg.values)) or \
            isinstance(msg, (ast.BinOp, ast.Call, ast.Name, ast.Attribute, ast.Subscript))
        if dynamic:
            out.append(n)
    return out


def walk_shallow_fn(node):
    from ..srcmodel import walk_shallow

    return walk_shallow(node)


def _log_format_rule(ctx: Ctx) -> None:
    """C02.logfmt: no exception other than SyntaxError may escape - also not from the logging calls on the way. A log call
    with a run-time built format string plus arguments is only harmful where records are formatted outside a handler
    (a filter / record factory calling getMessage()): both sites must exist for a report."""
    model = ctx.model
    seen = set()
    sites = []
    for q in ENTRY_POINTS:
        start = model.func(q)
        for rq in model.reachable(start):
            if rq in seen or rq not in model.functions:
                continue
            seen.add(rq)
            fn = model.functions[rq]
            if fn.module.name.endswith("_vstat_stub"):
                continue
            for call in unsafe_log_calls(model, fn):
                sites.append((fn, call))
    eager = eager_log_formatters(model) if sites else []
    ctx.count(len(seen))
    ctx.units["log_format_rule_functions"] = len(seen)
    for fn, call in sites:
        ctx.ob("C02.logfmt", f"{fn.qualname}::{norm(call.args[LOG_METHODS[call.func.attr]], 60)}", not eager,
               f"{fn.qualname} logs with a format string built from run-time text plus format arguments ({norm(call, 120)}) and "
               f"{eager[0][0].qualname if eager else '?'} formats records eagerly (outside Handler.emit): a '%' in the text raises ValueError/TypeError "
               "from the parse path instead of SyntaxError", file=fn.file, line=call.lineno, function=fn.qualname)
    ctx.ob("C02.logfmt", "scan", True, "")
    # positive control: the rule recognises both halves in a tiny example
    from ..srcmodel import SrcModel

    control = ("import logging\nlogger = logging.getLogger('x')\n"
               "class F(logging.Filter):\n    def filter(self, record):\n        return bool(record.getMessage())\n"
               "logger.addFilter(F())\n"
               "def f(text):\n    logger.warning(f'bad {text} (%s)', 1)\n")
    ov = dict(model.overlay)
    ov["src/ahbicht/_vstat_control3.py"] = control
    cm = SrcModel(model.repo, overlay=ov)
    ctx.require(bool(unsafe_log_calls(cm, cm.func("ahbicht._vstat_control3.f"))) and bool(eager_log_formatters(cm)), "C02.logfmt positive control not recognised")


def check(ctx: Ctx) -> None:
    model = ctx.model
    gc = G.load(model, G.COND_MOD)
    ga = G.load(model, G.AHB_MOD)
    G.report_options(ctx, "C02.cfg", gc, COND_FILE, skip=("ordered_sets",))  # acceptance / the unambiguous part structure do not depend on it
    G.report_options(ctx, "C02.cfg", ga, AHB_FILE, skip=("ordered_sets",))  # acceptance / the unambiguous part structure do not depend on it
    for name, doc in DOC_COND.items():
        _terminal_rule(ctx, gc, name, doc, COND_FILE)
    for name, doc in DOC_AHB.items():
        _terminal_rule(ctx, ga, name, doc, AHB_FILE)
    # token-level language of the condition grammar
    classify = _classify_cond(gc)
    prods = G.token_productions(gc, classify)
    unknown = sorted({s for alts in prods.values() for alt in alts for s in alt if s.startswith("T:")})
    ctx.ob("C02.cfg", "terminals", not unknown, f"the condition grammar uses terminals outside the documented token set: {unknown}", file=COND_FILE, line=gc.grammar_assign.lineno)
    n = 9 if ctx.tier == "quick" else 12
    mine = G.sentences(prods, gc.start, n)
    ref = G.sentences(REF_PRODS, "e", n)
    ctx.count(len(mine | ref))
    only_mine = sorted(mine - ref, key=len)[:3]
    only_ref = sorted(ref - mine, key=len)[:3]
    ctx.ob("C02.cfg", "language", not only_mine and not only_ref,
           f"token-level language differs from the documented grammar up to {n} tokens: accepted but undocumented {[' '.join(s) for s in only_mine]}, "
           f"documented but rejected {[' '.join(s) for s in only_ref]}", file=COND_FILE, line=gc.grammar_assign.lineno)
    ctx.units["token_sentences_compared"] = len(mine | ref)
    ctx.sample({"token_sentences_up_to": n, "count": len(ref), "example": " ".join(sorted(ref, key=len)[len(ref) // 2])})
    # the AHB grammar at token level: (MM CE)+ | (MM CE)+ RI | PO CE | RI  with RI = PO | MM
    ahb_prods = G.token_productions(ga, lambda t: t)
    ref_ahb = {"a": {("mm+",), ("PREFIX_OPERATOR", "CONDITION_EXPRESSION"), ("PREFIX_OPERATOR",), ("MODAL_MARK",), ("mm+", "PREFIX_OPERATOR"), ("mm+", "MODAL_MARK")},
               "mm+": {("MODAL_MARK", "CONDITION_EXPRESSION"), ("mm+", "MODAL_MARK", "CONDITION_EXPRESSION")}}
    mine_a = G.sentences(ahb_prods, ga.start, 11)
    ref_a = G.sentences(ref_ahb, "a", 11)
    ctx.count(len(mine_a | ref_a))
    ctx.ob("C02.cfg", "ahb-language", mine_a == ref_a,
           f"token-level AHB language differs from the documented forms: only in code {sorted(mine_a - ref_a, key=len)[:3]}, only documented {sorted(ref_a - mine_a, key=len)[:3]}",
           file=AHB_FILE, line=ga.grammar_assign.lineno)
    # greedy-safety of the dynamic lexer for the condition grammar
    follow_first = {}
    for name in DOC_COND:
        ext = R.extension_chars(gc.term(name).parsed)
        # in the documented grammar every key/repeatability terminal is followed by ']' or (PACKAGE_KEY) REPEATABILITY or whitespace
        followers = [R.parse(r"\]"), R.parse("[ \\t\\f\\r\\n]")]
        if name == "PACKAGE_KEY":
            followers.append(gc.term("REPEATABILITY").parsed)
        bad = None
        for f in followers:
            inter = ext.intersect(R.first_chars(f))
            if not inter.is_empty():
                bad = inter
        ctx.count()
        ctx.ob("C02.lexical", name, bad is None,
               f"terminal {name} can be extended by {bad.describe() if bad else ''}, which can also start what follows it: the one-match-per-position lexer may reject documented input",
               file=COND_FILE, line=gc.grammar_assign.lineno)
    _parse_function_rule(ctx, G.COND_MOD, "parse_condition_expression_to_tree", COND_FILE)
    _parse_function_rule(ctx, G.AHB_MOD, "parse_ahb_expression_to_single_requirement_indicator_expressions", AHB_FILE)
    _resolver_rule(ctx)
    _log_format_rule(ctx)
    ctx.assume("L2: with the dynamic Earley lexer Lark.parse(str) raises only UnexpectedCharacters/UnexpectedEOF; non-str input raises TypeError")
    ctx.assume("L3: exceptions raised in transformer callbacks are wrapped in VisitError(orig_exc)")
    ctx.assume("implicit interpreter exceptions (RecursionError, MemoryError) are outside the model")
    ctx.assume("that Lark's Earley implementation recognises exactly L(G) is trusted")
