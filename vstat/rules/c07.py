"""C07 - the collected format-constraint expression is well-formed and meaning-preserving."""
from __future__ import annotations

from ..rcsweep import RCT, abstract_nodes, callback_table, report_sweep
from ..refsem import F, N
from ..report import Ctx

EXPLANATION = (
    "Bounded decision: for every expression tree up to the tier's size bound and every assignment of the requirement "
    "keys, the expression collected by the abstractly interpreted RequirementConstraintTransformer / "
    "FormatConstraintExpressionBuilder is absent or parses with the reference grammar into format-constraint keys of "
    "the source joined by U/O/X, and under every truth assignment of the format keys its abstractly evaluated value "
    "equals the direct reading (attached constraint takes part iff its partner is FULFILLED or a hint). Trees in which "
    "a juxtaposition partner itself contains format constraints are only checked for well-formedness (the reading is "
    "ambiguous there). Unbounded premise: the attach rule of then_also over the abstract operand domain."
)
FILE = "src/ahbicht/expressions/requirement_constraint_expression_evaluation.py"


def check(ctx: Ctx) -> None:
    model = ctx.model
    cls = model.cls(RCT)
    specs = dict(abstract_nodes())
    cb = "then_also_composition"
    fn = model.find_method(cls, cb)
    ctx.require(fn is not None, f"anchor vanished: {cb}")
    table = callback_table(model, cb)
    for (lt, rt), out in table.items():
        if "FC" not in (lt, rt) or lt == rt or out[0] != "ret":
            continue
        other = specs[rt if lt == "FC" else lt]
        attached = out[4] is not None and "901" in str(out[4])
        must = other["state"] == F or other["cls"] == "Hint"
        if other["state"] == N and other["cls"] != "Hint":
            continue
        ctx.count()
        ctx.ob("C07.attach", f"{lt},{rt}", attached == must,
               f"then_also_composition({lt}, {rt}): format constraint {'attached' if attached else 'not attached'} "
               f"(collected {out[4]!r}); it must be attached iff the partner is FULFILLED or a hint",
               file=FILE, line=fn.node.lineno, function="_then_also")
        if attached and other.get("fce"):
            ctx.ob("C07.keep", f"{lt},{rt}", "902" in str(out[4]),
                   f"then_also_composition({lt}, {rt}) drops the partner's own collected expression: {out[4]!r}", file=FILE, function="_then_also")
    ctx.soft(lambda: template_rule(ctx))
    ctx.soft(lambda: report_sweep(ctx, ("C07.tree",), "src/ahbicht/expressions/expression_builder.py"))
    ctx.assume("precedence of the re-parse is the documented one (C01)")


def template_rule(ctx: Ctx) -> None:
    """C07.template: every string the FormatConstraintExpressionBuilder can produce, as literal chunks and holes; an
    already collected expression (hole) is the whole string or directly enclosed in parentheses, so the re-parse regroups
    nothing whatever the precedence; operands contributing nothing leave no text and no dangling operator."""
    import re

    from ..fdai import Interp
    from ..fdvalues import Obj, Opaque, PyRaise, StrT, explore
    from ..tables import CFV

    model = ctx.model
    FCB = "ahbicht.expressions.expression_builder.FormatConstraintExpressionBuilder"
    NODES = "ahbicht.models.condition_nodes"
    cls = model.cls(FCB)
    letters = {}
    for meth, member in (("land", "LAND"), ("lor", "LOR"), ("xor", "XOR")):
        letters[meth] = model.enum_members(model.cls("ahbicht.models.enums.LogicalOperator")).get(member)
    want_letter = {"land": "U", "lor": "O", "xor": "X"}

    def operand(it, kind, n):
        neutral = it.enum(CFV, "NEUTRAL")
        if kind == "fc":
            return Obj(f"{NODES}.UnevaluatedFormatConstraint", {"conditions_fulfilled": neutral, "condition_key": f"90{n}"})
        if kind == "ec+":
            return Obj(f"{NODES}.EvaluatedComposition", {"conditions_fulfilled": it.enum(CFV, "FULFILLED"), "hint": None,
                                                        "format_constraints_expression": StrT((Opaque(f"E{n}", truthy=True),))})
        if kind == "ec-":
            return Obj(f"{NODES}.EvaluatedComposition", {"conditions_fulfilled": it.enum(CFV, "FULFILLED"), "hint": None, "format_constraints_expression": None})
        if kind == "rc":
            return Obj(f"{NODES}.RequirementConstraint", {"conditions_fulfilled": it.enum(CFV, "UNFULFILLED"), "condition_key": "1"})
        return Obj(f"{NODES}.Hint", {"conditions_fulfilled": neutral, "condition_key": "501", "hint": "h"})

    def render(v):
        if v is None:
            return None
        if isinstance(v, str):
            return v
        return "".join(p if isinstance(p, str) else "§" + p.label[1:] + "§" if isinstance(p, Opaque) and p.label.startswith("E") else "§?§" for p in v.parts)

    alt = {"fc": lambda n: rf"(\[90{n}\]|\(\[90{n}\]\))", "ec+": lambda n: rf"\(§{n}§\)"}
    solo = {"fc": lambda n: rf"(\[90{n}\]|\(\[90{n}\]\))", "ec+": lambda n: rf"(§{n}§|\(§{n}§\))"}
    for meth in ("land", "lor", "xor"):
        fn = model.find_method(cls, meth)
        ctx.require(fn is not None, f"anchor vanished: {FCB}.{meth}")
        ctx.ob("C07.chain", f"{meth}->letter", letters[meth] == want_letter[meth], f"LogicalOperator for {meth} has the value {letters[meth]!r}, the grammar's operator letter is {want_letter[meth]!r}",
               file="src/ahbicht/models/enums.py")
        for lk in ("fc", "ec+", "ec-", "rc", "hint"):
            for rk in ("fc", "ec+", "ec-", "rc", "hint"):
                def run(ch, lk=lk, rk=rk, meth=meth):
                    it = Interp(model, ch)
                    try:
                        b = it.call(it.module_value(cls.module, cls.name), [operand(it, lk, 1)], {}, None, None)
                        b2 = it.call(it.getattr(b, meth, None, None), [operand(it, rk, 2)], {}, None, None)
                        return ("ret", render(it.call(it.getattr(b2, "get_expression", None, None), [], {}, None, None)))
                    except PyRaise as err:
                        return ("raise", err.exc.cls)

                outs = sorted({o for _, o in explore(run)}, key=repr)
                ctx.count()
                lc, rc_ = lk in alt, rk in alt
                if lc and rc_:
                    pattern = rf"^{alt[lk](1)} {want_letter[meth]} {alt[rk](2)}$"
                elif lc:
                    pattern = rf"^{solo[lk](1)}$"
                elif rc_:
                    pattern = rf"^{solo[rk](2)}$"
                else:
                    pattern = None
                ok = all(o[0] == "ret" and ((o[1] is None or o[1] == "") if pattern is None else (isinstance(o[1], str) and re.match(pattern, o[1]) is not None)) for o in outs)
                ctx.ob("C07.template", f"{meth}:{lk},{rk}", ok,
                       f"FormatConstraintExpressionBuilder({lk}).{meth}({rk}) can produce {[o[1] if o[0] == 'ret' else o for o in outs]} "
                       f"(§n§ = an already collected expression); allowed shape: {pattern or 'no expression'} - a collected expression must stay enclosed in its own "
                       "parentheses and contribute-nothing operands must leave no text", file="src/ahbicht/expressions/expression_builder.py", line=fn.node.lineno, function=f"{cls.name}.{meth}")
                if meth == "land" and lk == "ec+" and rk == "ec+":
                    ctx.sample({"template": [o[1] for o in outs]})
    # the bracket-stripping pattern only removes a redundant pair around one key
    from .. import regexlang as R

    pat_expr = model.class_attr(cls, "_one_key_surrounded_by_brackets_pattern")
    pats = [n for n in ast_walk_calls(cls) if n]
    for call in pats:
        text = call.args[0].value
        parsed = R.parse(text)
        ref = R.parse(r"\(\[\d+\]\)")
        diff = R.difference_witness(parsed, ref)
        ctx.count()
        ctx.ob("C07.strip", "pattern", diff is None or R.inclusion_witness(parsed, ref) is None,
               f"the bracket-stripping pattern /{text}/ also matches {diff[0]!r}: it would remove brackets that are not a redundant pair around a single key" if diff else "",
               file="src/ahbicht/expressions/expression_builder.py", line=call.lineno)


def ast_walk_calls(cls):
    import ast

    from ..srcmodel import dotted

    out = []
    for n in ast.walk(cls.node):
        if isinstance(n, ast.Call) and (dotted(n.func) or "") == "re.compile" and n.args and isinstance(n.args[0], ast.Constant) and isinstance(n.args[0].value, str):
            out.append(n)
    return out
