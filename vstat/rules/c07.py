"""C07 - the collected format-constraint expression is well-formed and meaning-preserving."""
from __future__ import annotations

from ..rcsweep import RCT, abstract_nodes, callback_table, report_sweep
from ..refsem import F, N
from ..report import Ctx

EXPLANATION = (
    "Bounded decision: for every expression tree up to the tier's size bound and every assignment of the requirement "
    "keys, the expression collected by the abstractly interpreted RequirementConstraintTransformer / "
    "FormatConstraintExpressionBuilder is absent or parses with the reference grammar into format-constraint keys of "
    "the source joined by U/O/X, and under every truth assignment of the format keys its abstractly evaluated value "
    "equals the direct reading (attached constraint takes part iff its partner is FULFILLED or a hint). Trees in which "
    "a juxtaposition partner itself contains format constraints are only checked for well-formedness (the reading is "
    "ambiguous there). Unbounded premise: the attach rule of then_also over the abstract operand domain."
)
FILE = "src/ahbicht/expressions/requirement_constraint_expression_evaluation.py"


def check(ctx: Ctx) -> None:
    model = ctx.model
    cls = model.cls(RCT)
    specs = dict(abstract_nodes())
    cb = "then_also_composition"
    fn = model.find_method(cls, cb)
    ctx.require(fn is not None, f"anchor vanished: {cb}")
    table = callback_table(model, cb)
    for (lt, rt), out in table.items():
        if "FC" not in (lt, rt) or lt == rt or out[0] != "ret":
            continue
        other = specs[rt if lt == "FC" else lt]
        attached = out[4] is not None and "901" in str(out[4])
        must = other["state"] == F or other["cls"] == "Hint"
        if other["state"] == N and other["cls"] != "Hint":
            continue
        ctx.count()
        ctx.ob("C07.attach", f"{lt},{rt}", attached == must,
               f"then_also_composition({lt}, {rt}): format constraint {'attached' if attached else 'not attached'} "
               f"(collected {out[4]!r}); it must be attached iff the partner is FULFILLED or a hint",
               file=FILE, line=fn.node.lineno, function="_then_also")
        if attached and other.get("fce"):
            ctx.ob("C07.keep", f"{lt},{rt}", "902" in str(out[4]),
                   f"then_also_composition({lt}, {rt}) drops the partner's own collected expression: {out[4]!r}", file=FILE, function="_then_also")
    report_sweep(ctx, ("C07.tree",), "src/ahbicht/expressions/expression_builder.py")
    ctx.assume("precedence of the re-parse is the documented one (C01)")
