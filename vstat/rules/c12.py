"""C12 - results do not depend on the completion order of asynchronous evaluators."""
from __future__ import annotations

import ast
import itertools

from .. import ahbsweep, refsem, valsweep
from ..evalmodel import Harness, cond_tree, default_hints
from ..fdai import Interp
from ..fdvalues import Obj, PyRaise, Ready, explore
from ..purity import check_path
from ..rcsweep import disk_cached
from ..refsem import F, K, U
from ..report import Ctx, Unsupported
from ..srcmodel import SrcModel, dotted, norm, walk_shallow

EXPLANATION = (
    "Schedule-invariance by abstract interpretation: asyncio.gather is modelled per L5 (results in argument order, each "
    "coroutine in its own context copy) with the *execution order* of the gathered coroutines chosen by the rule; the "
    "pipeline is interpreted in order and reversed - for multi-part AHB expressions, for package look-ups in the resolver, "
    "for wide AHB trees in validation, and for requirement/format evaluators whose per-key methods are an arbitrary mix of "
    "sync and async - and must give identical results that pair every key with its own value (reference semantics). "
    "gather_if_necessary is tabulated over all shapes of up to 4 awaitable/plain items. Structural rules: no "
    "completion-ordered asyncio primitive anywhere in the sources (with a positive control), the content-evaluation-result "
    "setter of is_valid_expression runs inside the per-assignment coroutine, and no function on the evaluation path keeps "
    "state on long-lived evaluator/provider objects or in module variables (context-local data can only be reached "
    "through the injected parameter)."
)
BANNED = {"as_completed": "yields results in completion order", "wait": "returns unordered done/pending sets",
          "wait_for": "makes the result depend on wall-clock time on the shared event loop (what else runs concurrently)",
          "timeout": "makes the result depend on wall-clock time on the shared event loop (what else runs concurrently)",
          "Queue": "hands items over in completion order", "PriorityQueue": "hands items over in completion order",
          "LifoQueue": "hands items over in completion order"}
CFV_ = "ahbicht.models.condition_nodes.ConditionFulfilledValue"
EXPRS = ["[1] U ([2] O [3])", "([2] O [3]) U [1]", "[3][901] X [1][902] U [2]", "[2] U [501] O [3] U [502] O [1]"]


def Opaque_data():
    from ..fdvalues import Opaque

    return Opaque("evaluatable_data", truthy=True, not_none=True)


def _mixed_eval_worker(args):
    from pathlib import Path

    repo, overlay_items, jobs = args
    model = SrcModel(Path(repo), overlay=dict(overlay_items))
    out = []
    for text, rc, async_keys, order in jobs:
        e = refsem.parse_condition(text)
        keys = refsem.keys_of(e)

        def run(ch):
            go = (lambda n: range(n)) if order == "fwd" else (lambda n: list(reversed(range(n))))
            h = Harness(model, ch, rc=rc, fc={"901": (False, "901 violated"), "902": (True, None)}, hints=default_hints(keys),
                        async_keys=tuple(async_keys), gather_order=go)
            try:
                res = h.requirement_evaluation(cond_tree(e))
                fres = h.format_evaluation(res.fields.get("format_constraints_expression"))
            except PyRaise as err:
                return ("raise", err.exc.cls)
            return ("ret", res.fields.get("requirement_constraints_fulfilled"), res.fields.get("requirement_is_conditional"),
                    res.fields.get("format_constraints_expression"), repr(res.fields.get("hints")), fres.fields.get("format_constraints_fulfilled"),
                    repr(fres.fields.get("error_message")))

        try:
            outs = [o for _, o in explore(run)]
            out.append((text, rc, list(async_keys), order, outs[0] if len(outs) == 1 else ("fork", len(outs))))
        except Unsupported as err:
            out.append((text, rc, list(async_keys), order, ("unsupported", str(err))))
    return out


def mixed_evaluator_results(model: SrcModel):
    def compute():
        import os
        from concurrent.futures import ProcessPoolExecutor

        jobs = []
        for text in EXPRS:
            keys = sorted(set(refsem.keys_of(refsem.parse_condition(text))))
            rckeys = [k for k in keys if refsem.key_kind(k) == "rc"]
            akeys = [k for k in keys if refsem.key_kind(k) in ("rc", "fc")]
            for states in itertools.permutations((F, U, K), len(rckeys)):
                rc = dict(zip(rckeys, states))
                for r in range(len(akeys) + 1):
                    for sub in itertools.combinations(akeys, r):
                        for order in ("fwd", "rev"):
                            jobs.append((text, rc, sub, order))
        chunks = [jobs[i::32] for i in range(32)]
        res = []
        with ProcessPoolExecutor(max_workers=int(os.environ.get("VSTAT_WORKERS") or min(16, os.cpu_count() or 4))) as ex:
            for part in ex.map(_mixed_eval_worker, [(str(model.repo), tuple(sorted(model.overlay.items())), c) for c in chunks if c]):
                res.extend(part)
        return [[t, rc, ak, o, list(out) if isinstance(out, tuple) else out] for t, rc, ak, o, out in res]

    return disk_cached(model, "c12-mixed", compute)


def check(ctx: Ctx) -> None:
    model = ctx.model
    # ---- C12.noapi
    hits = []
    for fn in model.functions.values():
        if fn.module.name.endswith("_vstat_stub"):
            continue
        for n in walk_shallow(fn.node):
            if isinstance(n, ast.Call):
                name = dotted(n.func) or ""
                last = name.split(".")[-1]
                if last in BANNED and ("asyncio" in name or last in ("as_completed",) or model.resolve_expr(fn.module, n.func) in (f"ext:asyncio.{last}",)):
                    hits.append((fn, n, last))
                if last in ("create_task", "ensure_future", "Task") and any(kw.arg == "context" for kw in n.keywords):
                    hits.append((fn, n, "context="))
    for fn, n, last in hits:
        ctx.ob("C12.noapi", f"{fn.qualname}::{last}", False, f"{fn.qualname} uses {norm(n.func)}: {BANNED.get(last, 'an explicit context breaks the per-task context copy')}",
               file=fn.file, line=n.lineno, function=fn.qualname)
    ctx.ob("C12.noapi", "scan", True, "")
    control = "import asyncio\nasync def f(xs):\n    return [await x for x in asyncio.as_completed(xs)]\n"
    ov = dict(model.overlay)
    ov["src/ahbicht/_vstat_control2.py"] = control
    cm = SrcModel(model.repo, overlay=ov)
    seen = any(isinstance(n, ast.Call) and (dotted(n.func) or "").endswith("as_completed") for n in ast.walk(cm.func("ahbicht._vstat_control2.f").node))
    ctx.require(seen, "C12.noapi positive control not recognised")
    # ---- C12.mixed: gather_if_necessary keeps positions
    gin = model.func("ahbicht.utility_functions.gather_if_necessary")
    for k in range(0, 5):
        for shape in itertools.product((True, False), repeat=k):
            for order in ("fwd", "rev"):
                def run(ch, shape=shape, order=order):
                    it = Interp(model, ch)
                    it.gather_order = (lambda n: range(n)) if order == "fwd" else (lambda n: list(reversed(range(n))))
                    items = [Ready(f"v{i}") if aw else f"v{i}" for i, aw in enumerate(shape)]
                    try:
                        res = it.await_(it.call(it.funcval(gin.qualname), [items], {}, None, None), None, None)
                    except PyRaise as err:
                        return ("raise", err.exc.cls)
                    return ("ret", res)

                outs = [o for _, o in explore(run)]
                ctx.count()
                want = ("ret", [f"v{i}" for i in range(k)])
                ctx.ob("C12.mixed", f"{''.join('A' if s else 'p' for s in shape) or 'empty'}:{order}", outs == [want],
                       f"gather_if_necessary on items {['awaitable' if s else 'plain' for s in shape]} ({order} schedule) gives {outs}, expected every item at its own position",
                       file="src/ahbicht/utility_functions.py", line=gin.node.lineno, function=gin.qualname)
    # ---- C12.align: every key is paired with the value produced for it (keys unsorted, both schedules, sync/async mixes)
    from ..fdvalues import EnumVal

    long_list = [str(i) for i in range(11, 34)]  # 23 keys: longer than any plausible batch/chunk size, not a multiple of it
    key_lists = [["3", "1", "2"], ["2", "2", "1"], ["10", "9"], [], long_list]
    for keys in key_lists:
        for order in ("fwd", "rev"):
            for async_keys in ((), tuple(keys[:1]), tuple(keys[1:])):
                def run(ch, keys=keys, order=order, async_keys=async_keys):
                    go = (lambda n: range(n)) if order == "fwd" else (lambda n: list(reversed(range(n))))
                    states = {"1": F, "2": U, "3": K, "9": U, "10": F, **{k: (F, U, K)[int(k) % 3] for k in long_list}}
                    h = Harness(model, ch, rc={k: states[k] for k in set(keys)}, fc={f"90{k}": (k in ("1", "10"), f"m{k}") for k in set(keys)},
                                hints={f"50{k}": ("" if k == "2" else f"text {k}") for k in set(keys)}, async_keys=tuple(async_keys) + tuple(f"90{k}" for k in async_keys), gather_order=go)
                    it = h.it
                    out = {}
                    seen_contexts = []
                    for q_ in list(model.functions):
                        if q_.startswith("ahbicht._vstat_stub.make_rc_method.") and q_.split(".")[-1].startswith("evaluate"):
                            it.call_observers[q_] = lambda a, k: seen_contexts.append(a[1] if len(a) > 1 else k.get("context"))
                    try:
                        r = it.await_(it.call(it.getattr(h.rc_eval, "evaluate_conditions", None, None), [list(keys), Opaque_data()], {}, None, None), None, None)
                        objs = [c for c in seen_contexts if c is not None]
                        if len(objs) != len({id(c) for c in objs}):
                            return ("shared-context", len(objs), len({id(c) for c in objs}))
                        out["rc"] = {k: (v.name if isinstance(v, EnumVal) else repr(v)) for k, v in r.items()}
                        if len(keys) > 1:  # the documented optional parameter: a context for some of the keys only
                            ctxs = {keys[1]: Obj("ahbicht.content_evaluation.evaluationdatatypes.EvaluationContext", {"scope": "$"})}
                            r2 = it.await_(it.call(it.getattr(h.rc_eval, "evaluate_conditions", None, None), [list(keys), Opaque_data(), ctxs], {}, None, None), None, None)
                            if {k: (v.name if isinstance(v, EnumVal) else repr(v)) for k, v in r2.items()} != out["rc"]:
                                out["rc"] = {"with-context-for": keys[1], "got": {k: repr(v) for k, v in r2.items()}}
                        r = it.await_(it.call(it.getattr(h.fc_eval, "evaluate_format_constraints", None, None), [[f"90{k}" for k in keys]], {}, None, None), None, None)
                        out["fc"] = {k: (v.fields.get("format_constraint_fulfilled"), v.fields.get("error_message")) for k, v in r.items()}
                        r = it.await_(it.call(it.getattr(h.hints, "get_hints", None, None), [[f"50{k}" for k in keys]], {}, None, None), None, None)
                        out["hints"] = {k: (v.fields.get("hint"), v.fields.get("condition_key")) for k, v in r.items()}
                    except PyRaise as err:
                        return ("raise", err.exc.cls)
                    return ("ret", out, states)

                outs = [o for _, o in explore(run)]
                ctx.count()
                ok = len(outs) == 1 and outs[0][0] == "ret"
                detail = outs
                if outs and outs[0][0] == "shared-context":
                    detail = (f"the evaluation methods of {outs[0][1]} keys were handed only {outs[0][2]} distinct default context object(s): "
                              "evaluators that adjust their context while they await would race on it")
                if ok:
                    out, states = outs[0][1], outs[0][2]
                    ok = (out["rc"] == {k: states[k] for k in keys}
                          and out["fc"] == {f"90{k}": (k in ("1", "10"), f"m{k}") for k in keys}
                          and out["hints"] == {f"50{k}": (("" if k == "2" else f"text {k}"), f"50{k}") for k in keys})
                    detail = out
                ctx.ob("C12.align", f"{keys}:{order}:async={list(async_keys)}", ok,
                       f"evaluating keys {keys} ({order} schedule, async evaluators for {list(async_keys)}): {detail}; every key must be paired with its own value",
                       file="src/ahbicht/content_evaluation/rc_evaluators.py", function="evaluate_conditions / evaluate_format_constraints / get_hints")
    # ---- C12.cer: the shipped ContentEvaluationResult-based evaluators look a key up in the data of *this* call
    from ..fdvalues import Opaque

    NODES = "ahbicht.models.condition_nodes"
    cer_cases = [
        ("ahbicht.content_evaluation.rc_evaluators.ContentEvaluationResultBasedRcEvaluator", "evaluate_single_condition", "requirement_constraints", True),
        ("ahbicht.content_evaluation.fc_evaluators.ContentEvaluationResultBasedFcEvaluator", "_evaluate_single_format_constraint", "format_constraints", False),
        ("ahbicht.expressions.hints_provider.ContentEvaluationResultBasedHintsProvider", "_get_hint_text", "hints", False),
        ("ahbicht.expressions.package_expansion.ContentEvaluationResultBasedPackageResolver", "_get_condition_expression", "packages", False),
    ]
    for cname, meth, table, data_positional in cer_cases:
        cls_ = model.cls(cname)
        fn_ = model.find_method(cls_, meth)
        if fn_ is None:
            ctx.note(f"{cname}.{meth} not found - C12.cer skipped for it")
            continue
        for key, present in (("2", True), ("1", True), ("7", False), ("none-table", False)):
            def run(ch, cname=cname, meth=meth, table=table, key=key):
                none_table = key == "none-table"
                key = "7" if none_table else key
                it = Interp(model, ch)
                it.ext_handlers["opaque-call"] = lambda _it, func, args, kwargs: args[0] if func.label.endswith(".load") else None
                tables = {
                    "requirement_constraints": {"1": it.enum(CFV_, "FULFILLED"), "2": it.enum(CFV_, "UNFULFILLED")},
                    "format_constraints": {"1": Obj(f"{NODES}.EvaluatedFormatConstraint", {"format_constraint_fulfilled": True, "error_message": None}),
                                           "2": Obj(f"{NODES}.EvaluatedFormatConstraint", {"format_constraint_fulfilled": False, "error_message": "m2"})},
                    "hints": {"1": "hint one", "2": "hint two"},
                    "packages": {"1": "[1] U [2]", "2": "[3]"},
                }
                if none_table and table == "packages":
                    tables[table] = None  # the model's default: nothing provided at all
                cer = Obj("ahbicht.models.content_evaluation_result.ContentEvaluationResult", {**tables, "id": None})
                data = Obj("ahbicht.content_evaluation.evaluationdatatypes.EvaluatableData", {"body": cer, "edifact_format": Opaque("fmt", truthy=True), "edifact_format_version": Opaque("fv", truthy=True)})
                self_obj = Obj(cname, {"_schema": Opaque("schema", truthy=True), "logger": Opaque("logger", kind="logging.Logger", truthy=True), "edifact_format": Opaque("fmt", truthy=True)})
                try:
                    res = it.call(it.getattr(self_obj, meth, None, None), [key], {"evaluatable_data": data}, None, None)
                    res = it.await_(res, None, None)
                except PyRaise as err:
                    return ("raise", err.exc.cls)
                want = (tables[table] or {}).get(key)
                if isinstance(res, Obj) and res.cls.endswith("PackageKeyConditionExpressionMapping"):
                    return ("ret", res.fields.get("package_expression") == want and res.fields.get("package_key") == key)
                return ("ret", res is want or (isinstance(want, str) and res == want) or (want is None and res is None) or it.eq(res, want))

            outs = sorted({o for _, o in explore(run)}, key=repr)
            ctx.count()
            if present or table in ("hints", "packages"):
                ok = outs == [("ret", True)]
            else:
                ok = outs == [("raise", "builtins.NotImplementedError")]
            ctx.ob("C12.cer", f"{cname.rsplit('.', 1)[-1]}:{key}", ok,
                   f"{cname.rsplit('.', 1)[-1]}.{meth}({key!r}) with this call's content evaluation result gives {outs}; it must return that result's own entry for the key"
                   f"{'' if present else ' (absent key: NotImplementedError for constraints, None for hints/packages)'}", file=cls_.file, line=fn_.node.lineno, function=fn_.qualname)
    shipped_rule(ctx, "C12.shipped", ("rc", "fc", "hint", "pkg"))
    # ---- C12.evaluators: any mix of sync/async per-key methods, both schedules
    base = {}
    results = mixed_evaluator_results(model)
    for text, rc, akeys, order, out in results:
        if isinstance(out, list) and out and out[0] == "unsupported":
            raise Unsupported(out[1])
        base.setdefault((text, tuple(sorted(rc.items()))), {})[(tuple(akeys), order)] = tuple(out) if isinstance(out, list) else out
    for (text, rc_items), variants in base.items():
        rc = dict(rc_items)
        ref_out = variants.get(((), "fwd"))
        e = refsem.parse_condition(text)
        want = refsem.outcome(refsem.state(e, rc)) if refsem.valid(e) else None
        ctx.count(len(variants))
        asg = ",".join(f"{k}={v[:3]}" for k, v in rc.items())
        ctx.ob("C12.evaluators", f"{text}@{asg}::reference", ref_out is not None and ref_out[0] == "ret" and tuple(ref_out[1:3]) == want,
               f"{text} under {asg} (all evaluators sync) gives {ref_out}, compositional semantics give {want}",
               file="src/ahbicht/content_evaluation/rc_evaluators.py")
        diff = {k: v for k, v in variants.items() if v != ref_out}
        if diff:
            (ak, order), v = sorted(diff.items())[0]
            ctx.ob("C12.evaluators", f"{text}@{asg}", False,
                   f"{text} under {asg}: with async evaluators for keys {list(ak)} ({order} schedule) the result is {v}, with sync evaluators {ref_out}: a key is paired with another key's value",
                   file="src/ahbicht/content_evaluation/rc_evaluators.py", function="RcEvaluator.evaluate_conditions / FcEvaluator.evaluate_format_constraints")
        else:
            ctx.ob("C12.evaluators", f"{text}@{asg}", True, "")
    ctx.units["evaluator_mix_runs"] = len(results)
    # ---- sweeps under reversed schedules
    ctx.soft(lambda: ahbsweep.report(ctx, ("C12.order",), "src/ahbicht/expressions/ahb_expression_evaluation.py"))
    ctx.soft(lambda: valsweep.report(ctx, ("C12.order",)))
    from .c10 import COND_CASES, PACKAGES, expected, observed, run_resolver

    for text in COND_CASES[:10] + ["[1P] U [2P] U [3P] U [6P]"]:
        kind, _want = expected(text, PACKAGES, True, True)
        a = observed(kind, run_resolver(model, text, PACKAGES, True, True, "fwd"))
        b = observed(kind, run_resolver(model, text, PACKAGES, True, True, "rev"))
        ctx.count(2)
        ctx.ob("C12.order", f"resolver:{text}", a == b, f"resolving {text}: in-order schedule {a}, reversed schedule {b}", file="src/ahbicht/expressions/expression_resolver.py")
    # ---- C12.ctx: every evaluation of is_valid_expression sees the data its own content_evaluation_result_setter call
    # configured (the setter is context-local: it runs inside the task that evaluates, before the evaluation)
    ive = model.func("ahbicht.content_evaluation.is_valid_expression")
    from ..evalmodel import run_is_valid

    for text in ("Muss [1] U [2]", "Muss [1] U [901]", "Muss [1] O [2]"):
        for schedule in ("fwd", "rev"):
            def one(ch, text=text, schedule=schedule):
                obs: dict = {}
                res, _n = run_is_valid(model, text, ch, obs=obs, schedule=schedule)
                return res, obs

            for _trace, (res, obs) in explore(one):
                ctx.count()
                configs = obs.get("configs", [])
                seen: dict = {}
                for kind, key, cfg in obs.get("lookups", []):
                    seen.setdefault(cfg, []).append(f"{kind}:{key}")
                stale = [f"{k} looked up before any data was set" for k in seen.get(None, [])]
                unseen = [c for c in configs if c not in seen]
                ok = len(configs) >= 2 and not stale and not unseen
                ctx.ob("C12.ctx", f"{text}/{schedule}", ok,
                       f"is_valid_expression({text!r}), {schedule} schedule: {len(configs)} content evaluation results were set, but the evaluations looked their "
                       f"evaluators up under the configurations {sorted(k for k in seen if k is not None)}{' and ' + stale[0] if stale else ''}: "
                       "the setter must run inside the task that evaluates (before the evaluation), otherwise concurrent evaluations share one set of data",
                       file=ive.file, line=ive.node.lineno, function=ive.qualname)
    ctx.soft(lambda: check_path(ctx, "C12.state", ["ahbicht.expressions.ahb_expression_evaluation.evaluate_ahb_expression_tree", "ahbicht.content_evaluation.is_valid_expression",
                                  "ahbicht.expressions.expression_resolver.parse_expression_including_unresolved_subexpressions"],
               "evaluation results must not depend on other (concurrent or earlier) evaluations",
               extra_classes=["ahbicht.content_evaluation.evaluators.Evaluator", "ahbicht.expressions.hints_provider.HintsProvider",
                              "ahbicht.expressions.package_expansion.PackageResolver"]))
    from ..purity import check_models_and_transformers

    ctx.soft(lambda: check_models_and_transformers(ctx, "C12.state", "evaluation must not depend on earlier evaluations"))
    ctx.assume("L5 (gather: argument order, own task/context copy per coroutine), L6 (inject.params resolves the provider at call time in the calling task)")
    ctx.assume("user-supplied evaluators that share state among themselves are outside the property")


def shipped_rule(ctx: Ctx, rule_id: str, kinds) -> None:
    """The shipped dictionary based evaluators / providers / resolvers answer with the entry of the very key asked for."""
    from ..fdvalues import ClassVal, FuncVal, Opaque

    model = ctx.model
    if "rc" in kinds or "fc" in kinds:
        # the method registry of Evaluator.__init__: exactly the methods named evaluate_<digits>, each under its own key
        def registry(ch):
            it = Interp(model, ch)
            ev = it.construct(ClassVal("ahbicht._vstat_stub.StubMethodRcEvaluator"), [], {}, None, None)
            reg = ev.fields.get("_evaluation_methods")
            if not isinstance(reg, dict):
                return ("no-registry", repr(reg))
            return ("ret", tuple(sorted((k, getattr(getattr(v, "fn", None), "name", repr(v))) for k, v in reg.items())))

        outs = sorted({o for _t, o in explore(registry)}, key=repr)
        ctx.count()
        want = [("ret", (("7", "evaluate_7"), ("77", "evaluate_77")))]
        ctx.ob(rule_id, "Evaluator::method-registry", outs == want,
               f"Evaluator.__init__ registers {outs} for a custom evaluator with evaluate_7, evaluate_77, evaluate_7_legacy, evaluate_all, re_evaluate_7; "
               "exactly evaluate_7 -> '7' and evaluate_77 -> '77' must be found", file="src/ahbicht/content_evaluation/evaluators.py", function="Evaluator.__init__")
    NODES = "ahbicht.models.condition_nodes"
    # ---- C12.shipped: the dictionary based evaluators / providers / resolvers answer with the entry of the very key asked for
    shipped = [
        ("ahbicht.content_evaluation.rc_evaluators.DictBasedRcEvaluator", "evaluate_single_condition", "_results", "rc"),
        ("ahbicht.content_evaluation.fc_evaluators.DictBasedFcEvaluator", "evaluate_single_format_constraint", "_results", "fc"),
        ("ahbicht.expressions.hints_provider.DictBasedHintsProvider", "get_hint_text", "_all_hints", "hint"),
        ("ahbicht.expressions.package_expansion.DictBasedPackageResolver", "get_condition_expression", "_all_packages", "pkg"),
    ]
    for cname, meth, attr, kind in shipped:
        if kind not in kinds:
            continue
        cls_ = model.cls(cname)
        fn_ = model.find_method(cls_, meth)
        init_ = model.find_method(cls_, "__init__")
        if fn_ is None or init_ is None:
            ctx.note(f"{cname}.{meth} not found - C12.shipped skipped for it")
            continue
        keys = {"rc": ["1", "2", "7"], "fc": ["901", "932", "7"], "hint": ["501", "502", "7"], "pkg": ["7P", "007P", "10P", "9P"]}[kind]
        for key in keys:
            def run(ch, cname=cname, meth=meth, kind=kind, key=key, attr=attr):
                it = Interp(model, ch)
                table = {
                    "rc": {"1": it.enum(CFV_, "FULFILLED"), "2": it.enum(CFV_, "UNKNOWN")},
                    "fc": {"901": Obj(f"{NODES}.EvaluatedFormatConstraint", {"format_constraint_fulfilled": True, "error_message": None}),
                           "932": Obj(f"{NODES}.EvaluatedFormatConstraint", {"format_constraint_fulfilled": False, "error_message": "no"})},
                    "hint": {"501": "hint 501", "502": ""},
                    "pkg": {"7P": "[1] U [2]", "10P": None},
                }[kind]
                from ..fdvalues import ClassVal

                try:
                    self_obj = it.construct(ClassVal(cname), [table], {}, None, None)  # the real __init__ chain is interpreted
                except PyRaise as err:
                    return ("raise in __init__", err.exc.cls)
                args_ = [key] + ([Opaque_data()] if kind == "rc" else [])
                try:
                    res = it.await_(it.call(it.getattr(self_obj, meth, None, None), args_, {}, None, None), None, None)
                except PyRaise as err:
                    return ("raise", err.exc.cls)
                want = table.get(key)
                if isinstance(res, Obj) and res.cls.endswith("PackageKeyConditionExpressionMapping"):
                    return ("ret", res.fields.get("package_expression") == want and res.fields.get("package_key") == key)
                return ("ret", res is want or (isinstance(want, str) and res == want) or (want is None and res is None))

            outs = sorted({o for _, o in explore(run)}, key=repr)
            ctx.count()
            present = key in {"rc": ("1", "2"), "fc": ("901", "932"), "hint": ("501", "502"), "pkg": ("7P", "10P")}[kind]
            ok = outs == [("ret", True)] if (present or kind in ("hint", "pkg")) else outs == [("raise", "builtins.NotImplementedError")]
            ctx.ob(rule_id, f"{cname.rsplit('.', 1)[-1]}:{key}", ok,
                   f"{cname.rsplit('.', 1)[-1]}.{meth}({key!r}) gives {outs}; it must answer with its own entry for exactly that key "
                   f"({'present' if present else 'absent: NotImplementedError for constraints, None / unresolved mapping for hints and packages'})",
                   file=cls_.file, line=fn_.node.lineno, function=fn_.qualname)
