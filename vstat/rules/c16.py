"""C16 - an invalid expression makes one node optional and never aborts validation."""
from __future__ import annotations

import ast

from .. import ahbsweep, valsweep
from ..report import Ctx
from ..srcmodel import norm

EXPLANATION = (
    "Handler-coverage rule: every call of evaluate_ahb_expression_tree that is reachable from the validation entry points "
    "lies in a try whose handler catches InvalidExpressionError and does not re-raise. Bounded: all swept AHB trees with "
    "invalid expressions at groups, segments, free-text elements and value-pool entries (incl. pools whose entries are all "
    "invalid) are validated abstractly: no abort, the node is optional with the reason as hint, and every other node equals "
    "the run on the AHB in which the invalid expression is replaced by 'Kann'. The AHB-level sweep shows that an invalid part "
    "behind a fulfilled modal mark is still reported (nothing short-circuits)."
)
VAL = "ahbicht.validation.validation"
FILE = "src/ahbicht/validation/validation.py"
EVAL = "ahbicht.expressions.ahb_expression_evaluation.evaluate_ahb_expression_tree"


def check(ctx: Ctx) -> None:
    model = ctx.model
    mod = model.module(VAL)
    ev = model.func(EVAL)
    entry = model.func(f"{VAL}.validate_deep_anwendungshandbuch")
    reach = model.reachable(entry)
    sites = [s for s in model.callers_of(ev) if s.caller.qualname in reach]
    ctx.require(sites, "no call of evaluate_ahb_expression_tree is reachable from validate_deep_anwendungshandbuch")
    for s in sites:
        parents = model.parents(s.caller)
        node = s.node
        covered = False
        reraises = False
        cur = node
        while id(cur) in parents:
            par = parents[id(cur)]
            if isinstance(par, ast.Try) and any(cur is b or _contains(b, cur) for b in par.body):
                for h in par.handlers:
                    names = [norm(t) for t in (h.type.elts if isinstance(h.type, ast.Tuple) else [h.type])] if h.type is not None else ["BaseException"]
                    if any(n.split(".")[-1] in ("InvalidExpressionError", "BaseException") for n in names):
                        covered = True
                        reraises = any(isinstance(x, ast.Raise) for st in h.body for x in ast.walk(st))
            cur = par
        ctx.count()
        ctx.ob("C16.guard", f"{s.caller.qualname}", covered and not reraises,
               f"{s.caller.name}: the call of evaluate_ahb_expression_tree is " + ("in a handler that re-raises" if covered else "not covered by 'except InvalidExpressionError'") +
               ": an invalid expression would abort the whole validation", file=FILE, line=s.line, function=s.caller.qualname)
        ctx.sample({"guarded_call_site": s.caller.name, "line": s.line})
    ctx.soft(lambda: valsweep.report(ctx, ("C16.abort", "C16.kann")))
    # the only exception an invalid composition raises is the one the handlers catch
    from ..rcsweep import INVALID, RCT, callback_table

    for cb in ("or_composition", "xor_composition", "and_composition", "then_also_composition"):
        table = callback_table(model, cb)
        for (lt, rt), out in table.items():
            if out[0] == "raise":
                ctx.count()
                ok = out[1] in (INVALID, "builtins.NotImplementedError")
                ctx.ob("C16.exception", f"{cb}:{lt},{rt}", ok, f"{cb}({lt}, {rt}) raises {out[1]}: the validation handlers only catch InvalidExpressionError",
                       file="src/ahbicht/expressions/requirement_constraint_expression_evaluation.py", function=cb)
    ctx.soft(lambda: ahbsweep.report(ctx, ("C06.noshort",), "src/ahbicht/expressions/ahb_expression_evaluation.py"))


def _contains(root: ast.AST, target: ast.AST) -> bool:
    return any(n is target for n in ast.walk(root))
