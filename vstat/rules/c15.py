"""C15 - each data element's format constraints see only that element's own input."""
from __future__ import annotations

import ast

from .. import valsweep
from ..purity import check_path
from ..report import Ctx
from ..srcmodel import dotted, norm, walk_shallow

EXPLANATION = (
    "Typestate rules on the context variable: it is a contextvars.ContextVar bound once at module level; its only writer in "
    "the sources is the coroutine that validates a free-text element, the written value is that element's entered_input, "
    "unconditionally and before the evaluation is awaited; the element validations of a segment are started through "
    "asyncio.gather (own task = own context copy, L5). Bounded: segments with several free-text elements carrying "
    "different inputs (equal, empty, None, whitespace variants) are validated abstractly with context copies per gather task "
    "under both schedules; each element's format verdict must be the verdict for its own input and equal the result of "
    "validating the element alone. Hidden-state rule over the format-constraint evaluation path (no cache may remember "
    "another element's verdict)."
)
VAL = "ahbicht.validation.validation"
FCE = "ahbicht.content_evaluation.fc_evaluators"
FILE = "src/ahbicht/validation/validation.py"
VAR = "text_to_be_evaluated_by_format_constraint"


def _ancestors(model, fn, node):
    parents = model.parents(fn)
    cur = parents.get(id(node))
    while cur is not None and cur is not fn.node:
        yield cur
        cur = parents.get(id(cur))


def check(ctx: Ctx) -> None:
    model = ctx.model
    fmod = model.module(FCE)
    val = model.module_constant(fmod, VAR)
    ctx.ob("C15.var", VAR, isinstance(val, ast.Call) and (dotted(val.func) or "").split(".")[-1] == "ContextVar",
           f"{FCE}.{VAR} is not a ContextVar bound exactly once at module level ({norm(val) if val is not None else 'rebound or missing'})",
           file="src/ahbicht/content_evaluation/fc_evaluators.py")
    # reader: FcEvaluator.evaluate_single_format_constraint hands the text of the context variable to the method unchanged
    import ast as _ast

    from ..evalmodel import Harness
    from ..fdai import Frame
    from ..fdvalues import Obj, PyRaise, explore

    for text in (" abc ", "abc", "", "\u00a0x\t", None):
        def run(ch, text=text):
            h = Harness(model, ch, fc={"901": {text: (True, None), "*": (False, "another text arrived")}})
            it = h.it
            cv = it.eval(_ast.parse(VAR, mode="eval").body, Frame(None, fmod, None, set()))
            if not (isinstance(cv, Obj) and cv.cls == "contextvars.ContextVar"):
                return ("not-a-contextvar", repr(cv))
            cv.fields["value"] = text
            try:
                r = it.await_(it.call(it.getattr(h.fc_eval, "evaluate_single_format_constraint", None, None), ["901"], {}, None, None), None, None)
            except PyRaise as err:
                return ("raise", err.exc.cls)
            return ("ret", r.fields.get("format_constraint_fulfilled") if isinstance(r, Obj) else repr(r))

        outs = sorted({o for _t, o in explore(run)}, key=repr)
        ctx.count()
        ctx.ob("C15.own-input", f"reader:{text!r}", outs == [("ret", True)],
               f"with the entered input {text!r} in {VAR}, the evaluation method of FcEvaluator.evaluate_single_format_constraint received another text (outcome {outs}): "
               "the constraint is not evaluated against the element's own input", file="src/ahbicht/content_evaluation/fc_evaluators.py", function="FcEvaluator.evaluate_single_format_constraint")
    # writers
    writers = []
    for fn in model.functions.values():
        if fn.module.name.endswith("_vstat_stub"):
            continue
        for n in walk_shallow(fn.node):
            if isinstance(n, ast.Call) and isinstance(n.func, ast.Attribute) and n.func.attr in ("set", "reset") and (dotted(n.func.value) or "").split(".")[-1] == VAR:
                writers.append((fn, n))
    ctx.require(writers, f"no writer of {VAR} found")
    owner = model.func(f"{VAL}.validate_data_element_freetext")
    for fn, call in writers:
        ctx.count()
        ctx.ob("C15.writer", f"{fn.qualname}", fn is owner, f"{fn.qualname} writes {VAR}; only the free-text element validation may", file=fn.file, line=call.lineno, function=fn.qualname)
        if fn is owner and call.func.attr == "set":
            param = owner.params[0]
            arg = call.args[0] if call.args else None
            ok = isinstance(arg, ast.Attribute) and arg.attr == "entered_input" and isinstance(arg.value, ast.Name) and arg.value.id == param
            ctx.ob("C15.writer", "value", ok, f"the value written is '{norm(arg) if arg is not None else None}', not {param}.entered_input", file=FILE, line=call.lineno, function=owner.qualname)
            # unconditional, top-level statement of the function body, before the awaited evaluation
            top = [st for st in owner.node.body if any(x is call for x in ast.walk(st))]
            ctx.ob("C15.writer", "unconditional", bool(top) and isinstance(top[0], (ast.Expr, ast.Assign, ast.AnnAssign)),
                   "the .set() is nested in a conditional/loop/handler: it is not executed on every path before the evaluation", file=FILE, line=call.lineno, function=owner.qualname)
            eval_lines = [n.lineno for n in ast.walk(owner.node) if isinstance(n, ast.Call) and (dotted(n.func) or "").endswith("evaluate_ahb_expression_tree")]
            ctx.ob("C15.writer", "before-evaluation", bool(eval_lines) and call.lineno < min(eval_lines), "the .set() does not precede the evaluation of the element's expression", file=FILE, line=call.lineno, function=owner.qualname)
    # own task: every call path into the owner from validate_segment goes through an argument of asyncio.gather
    seg = model.func(f"{VAL}.validate_segment")
    # (the functional side - each element sees its own input under every schedule - is C15.own-input; this rule names the
    # construct when the element validations are awaited one after the other, i.e. in one shared context)
    awaited_direct = []
    for q in model.reachable(seg):
        f_ = model.functions.get(q)
        if f_ is None or f_.module.name.endswith("_vstat_stub"):
            continue
        for n in ast.walk(f_.node):
            if isinstance(n, ast.Await) and isinstance(n.value, ast.Call):
                tgt = model.resolve_expr(f_.module, n.value.func) if isinstance(n.value.func, (ast.Name, ast.Attribute)) else None
                name = getattr(tgt, "qualname", "") or ""
                if name == f"{VAL}.validate_data_element" and any(isinstance(p_, (ast.For, ast.AsyncFor, ast.While, ast.ListComp, ast.GeneratorExp, ast.DictComp, ast.SetComp))
                                                                  for p_ in _ancestors(model, f_, n)):
                    awaited_direct.append((f_, n))
    ctx.ob("C15.task", "gather", not awaited_direct,
           f"{awaited_direct[0][0].qualname if awaited_direct else ''} awaits the data element validations one after the other in a loop instead of gathering them: they share one context",
           file=FILE, line=(awaited_direct[0][1].lineno if awaited_direct else seg.node.lineno), function=seg.qualname)
    for fn in model.functions.values():
        for n in walk_shallow(fn.node):
            if isinstance(n, ast.Call) and any(kw.arg == "context" for kw in n.keywords) and (dotted(n.func) or "").split(".")[-1] in ("create_task", "ensure_future", "Task", "call_soon", "run"):
                ctx.ob("C15.task", f"context-arg:{fn.qualname}", False, f"{fn.qualname} passes an explicit context= to {norm(n.func)}", file=fn.file, line=n.lineno, function=fn.qualname)
    ctx.soft(lambda: valsweep.report(ctx, ("C15.own-input", "C12.order")))
    ctx.soft(lambda: check_path(ctx, "C15.state", [f"{VAL}.validate_data_element_freetext", "ahbicht.expressions.format_constraint_expression_evaluation.format_constraint_evaluation"],
               "a format verdict must depend on this element's input only", extra_classes=[f"{FCE}.FcEvaluator"]))
    ctx.assume("L5: a Task runs in a copy of the context current at its creation; awaiting a coroutine directly runs it in the awaiter's context")
