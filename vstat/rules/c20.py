"""C20 - the shipped date-time format constraints judge the instant, not its notation."""
from __future__ import annotations

import re
from typing import Any, Dict, List, Tuple

from ..evalmodel import STUB_MODULE, Harness
from ..fdvalues import ClassVal, ExtVal, Obj, Opaque, PyRaise, StrT, explore
from ..purity import check_path
from ..report import Ctx, Unsupported

EXPLANATION = (
    "Path-condition analysis by abstract interpretation: FcEvaluator.evaluate_931..935 are interpreted on an abstract "
    "input string; datetime.fromisoformat yields an abstract datetime (or raises ValueError), tzinfo may be None, every "
    "astimezone() either yields the datetime in the requested zone or raises OverflowError (L9), time-of-day components are "
    "symbols named after the zone they are expressed in. For every path the verdict is compared with the documented "
    "function of the path condition: 932/933 fulfilled iff hour == 0, minute == 0, second == 0 of the time in the zone bound "
    "to pytz 'Europe/Berlin' (934/935: hour == 6), 931 fulfilled iff the offset is zero (wall clock as written == wall "
    "clock in UTC); every other path - empty/None input, unparsable, naive, out of range - is unfulfilled with a message; "
    "no path raises; the verdict depends on no other predicate (month, day, spelling of the offset ...). Hidden-state "
    "rule over the evaluator methods. Declined: that pytz' Europe/Berlin data implements CET/CEST by the EU rule for every "
    "instant 1996-2037 (tz data is not source code of the repository)."
)
FCE = "ahbicht.content_evaluation.fc_evaluators.FcEvaluator"
FILE = "src/ahbicht/content_evaluation/german_strom_and_gas_tag.py"
WANT = {"932": ("Europe/Berlin", 0), "933": ("Europe/Berlin", 0), "934": ("Europe/Berlin", 6), "935": ("Europe/Berlin", 6)}


def zone_name(tz: Any) -> str:
    if isinstance(tz, Obj) and tz.cls == "abstract.tz":
        return tz.fields["name"]
    if isinstance(tz, ExtVal):
        return {"pytz.utc": "UTC", "pytz.UTC": "UTC", "datetime.timezone.utc": "UTC", "datetime.UTC": "UTC"}.get(tz.name, tz.name)
    if isinstance(tz, Obj) and tz.cls == "datetime.timezone" and tz.fields.get("zero"):
        return "UTC"
    return repr(tz)


def run_paths(model, key: str, text, pipeline: bool = False) -> List[Tuple[Dict[str, Any], Tuple]]:
    """All paths of evaluate_<key>(text): [(facts, outcome)]; facts: parsed/aware/overflow + component predicates asked.
    pipeline: the constraint is reached the regular way - the text sits in the context variable and
    FcEvaluator.evaluate_single_format_constraint(key) looks the method up and post-processes its result."""

    def run(ch):
        h = Harness(model, ch)
        it = h.it
        facts: Dict[str, Any] = {}
        comps: Dict[Tuple[str, str], Opaque] = {}

        def fromiso(_it, args, kwargs):
            if not isinstance(args[0], (str, StrT, Opaque)):
                raise PyRaise(Obj("builtins.TypeError", {"args": ("fromisoformat: argument must be str",)}))
            if ch.choose("fromisoformat parses", 2) == 1:
                facts["parsed"] = False
                raise PyRaise(Obj("builtins.ValueError", {"args": ("Invalid isoformat string",)}))
            facts["parsed"] = True
            aware = ch.choose("has offset", 2) == 0
            facts["aware"] = aware
            return Obj(f"{STUB_MODULE}.AbstractDateTime", {"tzinfo": Opaque("tzinfo", truthy=True, not_none=True) if aware else None, "zone": "as-written"})

        def astimezone(_it, args, kwargs):
            dt, tz = args
            if dt.fields.get("tzinfo") is None:
                facts["astimezone-on-naive"] = True
            z = zone_name(tz)
            if ch.choose(f"astimezone({z}) in range", 2) == 1:
                facts["overflow"] = True
                raise PyRaise(Obj("builtins.OverflowError", {"args": ("date value out of range",)}))
            return Obj(f"{STUB_MODULE}.AbstractDateTime", {"tzinfo": tz, "zone": z})

        def component(_it, args, kwargs):
            zone, name = args
            if (zone, name) not in comps:
                comps[(zone, name)] = Opaque(f"{zone}.{name}")
            return comps[(zone, name)]

        def time_replace(_it, args, kwargs):
            t, kw = args
            if set(kw) - {"microsecond", "tzinfo", "fold"}:
                raise Unsupported(f"time.replace({sorted(kw)})")
            return t

        def make_time(_it, args, kwargs):
            vals = list(args) + [0] * (4 - len(args))
            return Obj("datetime.time", {"hour": kwargs.get("hour", vals[0]), "minute": kwargs.get("minute", vals[1]), "second": kwargs.get("second", vals[2]),
                                         "microsecond": kwargs.get("microsecond", vals[3])})

        def same_wallclock(_it, args, kwargs):
            a, b = args
            if isinstance(b, Obj) and b.cls == "datetime.time":
                return all(_it.eq(a.fields[c], b.fields[c]) for c in ("hour", "minute", "second")) and b.fields["microsecond"] == 0
            if not (isinstance(b, Obj) and b.cls.endswith("AbstractTime")):
                return False
            za, zb = sorted([a.fields["zone"], b.fields["zone"]])
            if za == zb:
                return True
            return ch.choose(f"wallclock({za})==wallclock({zb})", 2, memo_key=("wc", za, zb)) == 0

        def offset_equals(_it, args, kwargs):
            a, b = args
            if isinstance(b, Obj) and b.cls == "datetime.timedelta" and b.fields.get("zero"):
                z = a.fields["zone"]
                if z == "UTC":
                    return True
                return ch.choose(f"wallclock(UTC)==wallclock({z})", 2, memo_key=("wc", "UTC", z)) == 0
            raise Unsupported(f"offset compared with {b!r}")

        def timedelta(_it, args, kwargs):
            zero = all(isinstance(a, (int, float)) and a == 0 for a in [*args, *kwargs.values()])
            return Obj("datetime.timedelta", {"zero": zero})

        it.ext_bases.update({f"{STUB_MODULE}.AbstractDateTime": ["datetime.datetime", "datetime.date"], f"{STUB_MODULE}.AbstractTime": ["datetime.time"],
                             f"{STUB_MODULE}.AbstractOffset": ["datetime.timedelta"]})
        it.ext_handlers.update({
            "datetime.datetime.fromisoformat": fromiso, "vstat_ext.vstat_astimezone": astimezone, "vstat_ext.vstat_component": component,
            "vstat_ext.vstat_same_wallclock": same_wallclock, "vstat_ext.vstat_offset_equals": offset_equals,
            "vstat_ext.vstat_text": lambda _it, a, k: StrT((Opaque(f"text:{a[0]}"),)),
            "vstat_ext.vstat_unsupported": lambda _it, a, k: (_ for _ in ()).throw(Unsupported(f"abstract datetime does not model {a[0]}")),
            "pytz.timezone": lambda _it, a, k: Obj("abstract.tz", {"name": a[0]}),
            "zoneinfo.ZoneInfo": lambda _it, a, k: Obj("abstract.tz", {"name": a[0]}),
            "datetime.timedelta": timedelta, "vstat_ext.vstat_time_replace": time_replace, "datetime.time": make_time,
        })
        ev = Obj(f"{STUB_MODULE}.StubFcEvaluator", {"_evaluation_methods": {}, "stub_methods": {}, "logger": Opaque("logger", kind="logging.Logger", truthy=True)})
        try:
            if pipeline:
                import ast as _ast

                from ..fdai import Frame

                fmod = model.module("ahbicht.content_evaluation.fc_evaluators")
                cv = it.eval(_ast.parse("text_to_be_evaluated_by_format_constraint", mode="eval").body, Frame(None, fmod, None, set()))
                if not (isinstance(cv, Obj) and cv.cls == "contextvars.ContextVar"):
                    raise Unsupported(f"text_to_be_evaluated_by_format_constraint is {cv!r}, not a ContextVar")
                cv.fields["value"] = text
                ev.fields["stub_methods"] = ev.fields["_evaluation_methods"] = {key: it.getattr(ev, f"evaluate_{key}", None, None)}
                res = it.await_(it.call(it.getattr(ev, "evaluate_single_format_constraint", None, None), [key], {}, None, None), None, None)
            else:
                res = it.call(it.getattr(ev, f"evaluate_{key}", None, None), [text], {}, None, None)
        except PyRaise as err:
            return facts, ("raise", err.exc.cls)
        if not (isinstance(res, Obj) and res.cls.endswith("EvaluatedFormatConstraint")):
            return facts, ("value", repr(res))
        msg = res.fields.get("error_message")
        if msg is not None and not isinstance(msg, (str, StrT)):
            return facts, ("message-is-not-text", repr(msg))
        return facts, ("ret", res.fields.get("format_constraint_fulfilled"), msg is not None)

    out = []
    for trace, (facts, outcome) in explore(run):
        preds = {}
        for label, choice, _n in trace:
            if "==" in label or label.startswith("truth("):
                preds[label] = (choice == 0)
        facts = dict(facts)
        facts["preds"] = preds
        out.append((facts, outcome))
    return out


def expected(key: str, facts) -> Tuple:
    if not facts.get("parsed") or not facts.get("aware") or facts.get("overflow"):
        return ("ret", False, True)
    preds = facts["preds"]
    if key == "931":
        # "the offset is zero": the wall clocks agree, or the offset's length in seconds is compared with 0 - nothing coarser
        same = [v for k, v in preds.items() if k.startswith("wallclock(") or re.fullmatch(r"\??as-written\.offset_seconds==0(\.0)?", k)]
        if not same:
            return ("undetermined",)
        return ("ret", True, False) if all(same) and len(same) == 1 else ("ret", False, True) if len(same) == 1 else ("undetermined",)
    zone, hour = WANT[key]
    need = {f"{zone}.hour=={hour}": None, f"{zone}.minute==0": None, f"{zone}.second==0": None}
    vals = []
    for k in need:
        if k in preds:
            vals.append(preds[k])
    if any(v is False for v in vals):
        return ("ret", False, True)
    if len(vals) == 3 and all(vals):
        return ("ret", True, False)
    return ("undetermined",)


def check(ctx: Ctx) -> None:
    model = ctx.model
    cls = model.cls(FCE)
    for key in ("931", "932", "933", "934", "935"):
        fn = model.find_method(cls, f"evaluate_{key}")
        ctx.require(fn is not None, f"anchor vanished: FcEvaluator.evaluate_{key}")
        # concrete degenerate inputs
        for text in (None, ""):
            for facts, outcome in run_paths(model, key, text):
                ctx.count()
                ctx.ob("C20.raise", f"{key}:{text!r}", outcome == ("ret", False, True), f"evaluate_{key}({text!r}) gives {outcome}; it must be unfulfilled with an error message", file=FILE, function=fn.qualname)
        paths = run_paths(model, key, StrT((Opaque("entered_input", truthy=True),)))
        ctx.require(len(paths) >= 4, f"evaluate_{key}: only {len(paths)} paths explored")
        via = [(f, o, "via the context variable and evaluate_single_format_constraint: ") for f, o in run_paths(model, key, StrT((Opaque("entered_input", truthy=True),)), pipeline=True)]
        ctx.require(len(via) >= 4, f"evaluate_single_format_constraint({key}): only {len(via)} paths explored")
        fulfilled_paths = 0
        for facts, outcome, how in [(f, o, "") for f, o in paths] + via:
            ctx.count()
            desc = {k: v for k, v in facts.items() if k != "preds"}
            cond = ", ".join(f"{k}={'T' if v else 'F'}" for k, v in facts["preds"].items())
            pkey = f"{key}:{how[:7]}{desc}:{cond}"
            if outcome[0] == "message-is-not-text":
                ctx.ob("C20.verdict", pkey, False, f"{how}evaluate_{key} reports the error message {outcome[1]} on the path [{desc} {cond}]: the message must be text", file=FILE, function=fn.qualname)
                continue
            if outcome[0] == "raise":
                ctx.ob("C20.raise", pkey, False, f"{how}evaluate_{key} raises {outcome[1]} on the path [{desc} {cond}]: no string input may make the constraint raise",
                       file=FILE, function=fn.qualname)
                continue
            want = expected(key, facts)
            if want == ("undetermined",):
                extra = "the verdict was reached without asking the documented question"
                ok = False if outcome[:2] == ("ret", True) else outcome == ("ret", False, True)
                ctx.ob("C20.verdict", pkey, ok, f"evaluate_{key} gives {outcome} on the path [{desc} {cond}]: {extra} "
                       f"({'offset == 0' if key == '931' else 'German local time == %02d:00:00' % WANT[key][1]})", file=FILE, function=fn.qualname)
                continue
            if want[:2] == ("ret", True):
                fulfilled_paths += 1
            ctx.ob("C20.verdict", pkey, outcome == want,
                   f"evaluate_{key} gives (fulfilled, has message) = {outcome[1:]} on the path [{desc} {cond}], documented: {want[1:]}", file=FILE, function=fn.qualname)
            foreign = [k for k in facts["preds"] if not (k.startswith("wallclock(") or re.fullmatch(r"\??as-written\.offset_seconds==0(\.0)?", k) or any(k.startswith(f"{z}.") for z in ("Europe/Berlin", "UTC", "as-written")) or k.startswith("truth("))]
            if foreign and outcome[:2] == ("ret", True):
                ctx.ob("C20.verdict", f"{pkey}::foreign", False, f"evaluate_{key}: a fulfilled verdict depends on {foreign} - something other than the instant / the offset", file=FILE, function=fn.qualname)
        ctx.ob("C20.verdict", f"{key}:reachable", fulfilled_paths >= 1, f"evaluate_{key} has no path on which the constraint is fulfilled for the documented condition", file=FILE, function=fn.qualname)
        ctx.sample({"constraint": key, "paths": len(paths), "example": [{"facts": {k: v for k, v in f.items()}, "outcome": list(o)} for f, o in paths[:2]]})
    ctx.soft(lambda: check_path(ctx, "C20.state", [f"{FCE}.evaluate_{k}" for k in ("931", "932", "933", "934", "935")], "a verdict must depend on the entered input only"))
    ctx.assume("L9: fromisoformat raises only ValueError for str input; astimezone raises OverflowError outside years 1..9999")
    ctx.assume("pytz Europe/Berlin implements CET/CEST by the EU rule (tz data, not decided here)")
