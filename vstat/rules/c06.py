"""C06 - expression validity is structural; validity check and evaluation agree."""
from __future__ import annotations

from .. import refsem
from ..evalmodel import ahb_tree, run_is_valid
from ..fdvalues import StrT
from ..rcsweep import INVALID, LEAVES_QUICK, RCT, abstract_nodes, callback_table, enumerate_trees, report_sweep
from ..refsem import N
from ..report import Ctx
from ..tables import STATES, operator_tables

EXPLANATION = (
    "Decided completely over the abstract operand domain: the raise table of or_/xor_composition (441 pairs each) "
    "raises InvalidExpressionError iff exactly one operand is NEUTRAL or the pair is {Hint, UnevaluatedFormatConstraint}; "
    "table lemma x.y = NEUTRAL <=> x = y = NEUTRAL makes NEUTRAL-ness a function of the tree alone. Bounded: every "
    "expression tree up to the tier's size bound is evaluated abstractly under every assignment (raise iff structurally "
    "invalid) and is_valid_expression is interpreted abstractly (generated content evaluation results, setter, gather) "
    "on every such tree and must return (True, None) resp. (False, reason)."
)
FILE = "src/ahbicht/expressions/requirement_constraint_expression_evaluation.py"


def check(ctx: Ctx) -> None:
    model = ctx.model
    cls = model.cls(RCT)
    specs = dict(abstract_nodes())
    for cb in ("or_composition", "xor_composition"):
        fn = model.find_method(cls, cb)
        ctx.require(fn is not None, f"anchor vanished: {RCT}.{cb}")
        table = callback_table(model, cb)
        for (lt, rt), out in table.items():
            ctx.count()
            ls, rs = specs[lt], specs[rt]
            ln, rn = ls["state"] == N, rs["state"] == N
            must_raise = (ln != rn) or {ls["cls"], rs["cls"]} == {"Hint", "UnevaluatedFormatConstraint"}
            if must_raise:
                ok = out[0] == "raise" and out[1] == INVALID
                what = f"{cb}({lt}, {rt}) must raise InvalidExpressionError (neutral/non-neutral mix or hint with format constraint) but gives {out[:2]}"
            else:
                ok = out[0] == "ret"
                what = f"{cb}({lt}, {rt}) is a valid combination but gives {out[:2]}"
            ctx.ob("C06.table", f"{cb}:{lt},{rt}", ok, what, file=FILE, line=fn.node.lineno, function=cb)
            # symmetry of the raise condition (used by C05: swapping operands keeps validity)
            ctx.ob("C06.symmetric", f"{cb}:{lt},{rt}", (out[0] == "raise") == (table[(rt, lt)][0] == "raise"),
                   f"{cb}({lt}, {rt}) raises={out[0] == 'raise'} but with swapped operands raises={table[(rt, lt)][0] == 'raise'}",
                   file=FILE, line=fn.node.lineno, function=cb)
    tabs = operator_tables(model)
    for op, tab in tabs.items():
        for a in STATES:
            for b in STATES:
                ctx.count()
                ctx.ob("C06.neutrality", f"{op}:{a},{b}", (tab[(a, b)] == N) == (a == N and b == N),
                       f"{a} {op} {b} = {tab[(a, b)]}: NEUTRAL must result exactly from two NEUTRAL operands",
                       file="src/ahbicht/models/condition_nodes.py")
    ctx.soft(lambda: report_sweep(ctx, ("C06.tree",), FILE))
    from .. import ahbsweep

    ctx.soft(lambda: ahbsweep.report(ctx, ("C06.noshort",), "src/ahbicht/expressions/ahb_expression_evaluation.py"))
    # the validity check itself
    bound = 1 if ctx.tier == "quick" else 2
    trees = enumerate_trees(bound, LEAVES_QUICK)
    if True:
        trees += [refsem.parse_condition(s) for s in (
            "([1] O [501]) U [1]", "[1] U ([2] O [501])", "([1] U [2]) O ([501] U [502])", "[1][901] U ([2] X [901])",
            "([1] U [501]) O [2][901]", "([501] U [502]) O [901]", "[1] O ([2] U [1])", "([1] X [2]) U [901]", "[501] O [932]", "[1][932] U [2]", "[501] X [934]", "[1] U [931]",
            "[1][987] O [2][987] O [502]", "[1] U [2] O [1] U [3] O [501]", "[1] U ([2] O [501]) U [3]", "[2] U [1] U ([501] X [3])")]
    vfile = "src/ahbicht/content_evaluation/__init__.py"
    for e in trees:
        text = refsem.unparse(e)
        res, n_eval = run_is_valid(model, ahb_tree([("mm", "Muss", e)]))
        ctx.count(max(1, n_eval))
        want_valid = refsem.valid(e)
        has_keys = any(refsem.key_kind(k) in ("rc", "fc") for k in refsem.keys_of(e))
        if isinstance(res, tuple) and len(res) == 2 and res[0] != "raise":
            if want_valid:
                ok = res[0] is True and res[1] is None
            else:
                ok = res[0] is False and isinstance(res[1], (str, StrT)) and bool(res[1])
        else:
            ok = False
        ctx.ob("C06.check", text, ok, f"is_valid_expression(Muss {text}) = {res!r}; structurally the expression is "
               f"{'valid' if want_valid else 'invalid'}", file=vfile, function="is_valid_expression")
        if has_keys and want_valid and ok and n_eval > 0:  # (a check that decides structurally, without evaluating, is exempt)
            n_rc = len({k for k in refsem.keys_of(e) if refsem.key_kind(k) == "rc"})
            n_fc = len({k for k in refsem.keys_of(e) if refsem.key_kind(k) == "fc"})
            ctx.ob("C06.check", f"coverage:{text}", n_eval == 3 ** n_rc * 2 ** n_fc,
                   f"is_valid_expression(Muss {text}) evaluated {n_eval} content evaluation results, expected all "
                   f"{3 ** n_rc * 2 ** n_fc} (3 states per requirement key, 2 per format key)", file=vfile, function="is_valid_expression")
    ctx.units["is_valid_trees"] = len(trees)
    ctx.assume("L3: non-Exception BaseExceptions pass lark's Transformer unwrapped")
    icls = model.cls(INVALID)
    mro = model.mro(INVALID)
    ctx.ob("C06.base", INVALID, "builtins.BaseException" in mro, "InvalidExpressionError is no exception class any more", file=icls.file)
