"""C03 - four-valued condition logic: complete tables extracted from the AST, all laws checked exhaustively."""
from __future__ import annotations

from itertools import product

from ..report import Ctx
from ..tables import CFV, STATES, operator_tables, readme_truth_tables, reference_tables

EXPLANATION = (
    "Complete decision: the 4x4 tables of ConditionFulfilledValue.__and__/__or__/__xor__ are extracted from the "
    "current AST by the finite-domain abstract interpreter (domain = the enum's own member list) and totality, "
    "commutativity, associativity, NEUTRAL identity, Boolean agreement, every value row of the README truth tables, "
    "UNKNOWN soundness and tightness are checked on all 16 pairs / 64 triples per operator."
)
EXHAUSTIVE = True
OPNAME = {"__and__": "and", "__or__": "or", "__xor__": "xor"}
FILE = "src/ahbicht/models/condition_nodes.py"


def check(ctx: Ctx) -> None:
    model = ctx.model
    cls = model.cls(CFV)
    members = list(model.enum_members(cls))
    ctx.require(set(STATES) <= set(members), f"{CFV} lost one of its four members: {members}")
    tabs = operator_tables(model)
    ref = reference_tables()
    F, U, K, N = STATES
    ctx.units["enum_members"] = members
    for op, tab in tabs.items():
        name = OPNAME[op]
        line = model.find_method(cls, op).node.lineno
        ctx.sample({"operator": name, "table": {f"{a},{b}": v for (a, b), v in tab.items()}})

        def ob(rule, key, ok, what, detail=None):
            ctx.ob(f"C03.{rule}", f"{name}::{key}", ok, what, file=FILE, line=line, function=f"ConditionFulfilledValue.{op}",
                   detail=detail)

        # totality: every cell is a member
        for (a, b), v in tab.items():
            ctx.count()
            ob("total", f"{a},{b}", v in members, f"{a} {name} {b} does not yield a condition state but {v}")
        if any(v not in members for v in tab.values()):
            continue
        # a fifth member would have to be covered by the laws below too: only the four documented ones are
        for (a, b) in product(STATES, repeat=2):
            ctx.count()
            ob("commutative", f"{a},{b}", tab[(a, b)] == tab[(b, a)],
               f"{name} is not commutative: {a} {name} {b} = {tab[(a, b)]} but {b} {name} {a} = {tab[(b, a)]}")
        for (a, b, c) in product(STATES, repeat=3):
            ctx.count()
            lhs = tab[(tab[(a, b)], c)]
            rhs = tab[(a, tab[(b, c)])]
            ob("associative", f"{a},{b},{c}", lhs == rhs,
               f"{name} is not associative: ({a} {name} {b}) {name} {c} = {lhs} but {a} {name} ({b} {name} {c}) = {rhs}")
        for a in STATES:
            ctx.count(2)
            ob("identity", f"{a},NEUTRAL", tab[(a, N)] == a, f"NEUTRAL is not a right identity of {name}: {a} {name} NEUTRAL = {tab[(a, N)]}")
            ob("identity", f"NEUTRAL,{a}", tab[(N, a)] == a, f"NEUTRAL is not a left identity of {name}: NEUTRAL {name} {a} = {tab[(N, a)]}")
        boolean = {"__and__": lambda x, y: x and y, "__or__": lambda x, y: x or y, "__xor__": lambda x, y: x != y}[op]
        for a, b in product((F, U), repeat=2):
            ctx.count()
            want = F if boolean(a == F, b == F) else U
            ob("boolean", f"{a},{b}", tab[(a, b)] == want, f"{a} {name} {b} = {tab[(a, b)]}, Boolean logic gives {want}")
        # UNKNOWN soundness and tightness
        for a, b in product(STATES, repeat=2):
            if K not in (a, b):
                continue
            ctx.count()
            repl = [tab[(ra, rb)] for ra in ((F, U) if a == K else (a,)) for rb in ((F, U) if b == K else (b,))]
            got = tab[(a, b)]
            if got != K:
                ob("sound", f"{a},{b}", all(r == got for r in repl),
                   f"{a} {name} {b} = {got} although replacing UNKNOWN gives {sorted(set(repl))}")
            else:
                ob("tight", f"{a},{b}", len(set(repl)) > 1,
                   f"{a} {name} {b} = UNKNOWN although every replacement of UNKNOWN gives {repl[0]}")
        # every cell equals the reference semantics (implied by the laws; reported with the cell for diagnosis)
        for (a, b) in product(STATES, repeat=2):
            ctx.count()
            ob("cell", f"{a},{b}", tab[(a, b)] == ref[op][(a, b)],
               f"{a} {name} {b} = {tab[(a, b)]}, documented semantics give {ref[op][(a, b)]}")
    # README rows
    readme = model.repo / "README.rst"
    rows = readme_truth_tables(model.overlay.get("README.rst") or readme.read_text(encoding="utf-8")) if readme.exists() or "README.rst" in model.overlay else {}
    if not all(len(rows.get(op, [])) >= 5 for op in tabs):
        # the laws above already pin every cell; a re-organised README is a documentation change, not a reason to fail
        ctx.note(f"README.rst truth tables not found in the expected form ({ {k: len(v) for k, v in rows.items()} }); the README rows were not compared")
        rows = {}
    for op, rws in rows.items():
        for a, b, want in rws:
            if want is None:
                continue  # 'does not make sense' rows constrain C06, not the operator
            ctx.count(2)
            for x, y in ((a, b), (b, a)):
                ctx.ob("C03.readme", f"{OPNAME[op]}::{x},{y}", tabs[op][(x, y)] == want,
                       f"README.rst truth table: {a} {OPNAME[op]} {b} = {want}, code gives {tabs[op][(x, y)]}", file=FILE)
    ctx.units["readme_rows"] = {OPNAME[k]: len(v) for k, v in rows.items()}
    ctx.assume("engine D reads ==, in, is, return of the enum methods like CPython does (the enum defines no __eq__/__hash__)")
    for special in ("__eq__", "__hash__", "__ne__"):
        ctx.ob("C03.eq", special, special not in cls.methods, f"ConditionFulfilledValue defines {special}: equality of states is no longer member identity", file=FILE)


def mutants(model):
    """Sabotage variants: one per return statement / guard constant of the three operators."""
    import ast
    from ..sabotage import Mutant, replace_node_src

    out = []
    cls = model.cls(CFV)
    src = cls.module.src
    # lines that no pair of operands ever executes are dead code: changing them is an equivalent mutant, not a sabotage
    from ..fdai import Interp
    from ..fdvalues import FuncVal, PyRaise

    executed = set()
    it = Interp(model)
    tick0 = it.tick

    def tick(node):
        executed.add(getattr(node, "lineno", None))
        tick0(node)

    it.tick = tick  # type: ignore[method-assign]
    for op in ("__and__", "__or__", "__xor__"):
        for a in STATES:
            for b in STATES:
                try:
                    it.call(FuncVal(fn=cls.methods[op], self_obj=it.enum(CFV, a), module=cls.module), [it.enum(CFV, b)], {}, None, None)
                except PyRaise:
                    pass
    for op in ("__and__", "__or__", "__xor__"):
        fn = cls.methods[op]
        n = 0
        for node in ast.walk(fn.node):
            if getattr(node, "lineno", None) not in executed:
                continue
            if isinstance(node, ast.Attribute) and isinstance(node.value, ast.Name) and node.value.id == "ConditionFulfilledValue" \
                    and node.attr in STATES:
                for other in STATES:
                    if other != node.attr and (other, node.attr) in (("UNKNOWN", "FULFILLED"), ("FULFILLED", "UNFULFILLED"), ("UNFULFILLED", "UNKNOWN"), ("FULFILLED", "NEUTRAL"), ("UNFULFILLED", "FULFILLED"), ("NEUTRAL", "UNKNOWN")):
                        n += 1
                        out.append(Mutant(f"{op}:{node.lineno}:{node.col_offset}:{node.attr}->{other}",
                                          {cls.file: replace_node_src(src, node, f"ConditionFulfilledValue.{other}")}))
    return out
