"""C19 - JSON serialisation round-trips trees, evaluation inputs and evaluation results."""
from __future__ import annotations

import ast
from typing import Any, Dict, List, Optional

from ..evalmodel import token, tree
from ..fdai import Interp
from ..fdvalues import EnumVal, Obj, PyRaise, explore
from ..report import Ctx, Unsupported
from ..srcmodel import ClassDef, dotted, norm

EXPLANATION = (
    "Schema/model tables read from the AST for the ten schemas the property names: the schema's field names are exactly the "
    "model's constructor parameters (data_key only renames the JSON key, bijectively), nested fields use the schema of the "
    "nested model, every model field that may be None (Optional annotation / optional validator) is nullable in the schema "
    "under marshmallow's rule allow_none = (load_default is None) (L7), and no field carries a validate= constraint the model "
    "does not have. The hook functions are interpreted abstractly: every post_load builds exactly the model from **data "
    "(field by field, lists unchanged, null outcomes included), RequirementIndicatorSchema's post_dump -> pre_load -> "
    "post_load chain is the identity on all six indicators, ContentEvaluationResultSchema maps every dumped state back to its "
    "member, _TokenOrTreeSchema wraps/unwraps trees and tokens, TokenSchema/TreeSchema rebuild Token/Tree from the same fields."
)
PAIRS = [
    ("ahbicht.models.evaluation_results.RequirementConstraintEvaluationResultSchema", "ahbicht.models.evaluation_results.RequirementConstraintEvaluationResult"),
    ("ahbicht.models.evaluation_results.FormatConstraintEvaluationResultSchema", "ahbicht.models.evaluation_results.FormatConstraintEvaluationResult"),
    ("ahbicht.models.evaluation_results.AhbExpressionEvaluationResultSchema", "ahbicht.models.evaluation_results.AhbExpressionEvaluationResult"),
    ("ahbicht.models.condition_nodes.EvaluatedFormatConstraintSchema", "ahbicht.models.condition_nodes.EvaluatedFormatConstraint"),
    ("ahbicht.models.content_evaluation_result.ContentEvaluationResultSchema", "ahbicht.models.content_evaluation_result.ContentEvaluationResult"),
    ("ahbicht.models.categorized_key_extract.CategorizedKeyExtractSchema", "ahbicht.models.categorized_key_extract.CategorizedKeyExtract"),
]
TREE_MOD = "ahbicht.json_serialization.tree_schema"
ENUMS = "ahbicht.models.enums"


def schema_fields(model, cls: ClassDef) -> Dict[str, Dict[str, Any]]:
    out: Dict[str, Dict[str, Any]] = {}
    for cn in reversed(model.mro(cls.qualname)):
        c = model.classes.get(cn)
        if c is None:
            continue
        for name, val in c.assigns.items():
            if isinstance(val, ast.Call) and (dotted(val.func) or "").startswith("fields."):
                kw = {k.arg: k.value for k in val.keywords if k.arg}
                info = {"type": dotted(val.func).split(".")[-1], "kwargs": kw, "node": val, "args": val.args, "cls": c}
                out[name] = info
    return out


def field_nullable(info) -> bool:
    kw = info["kwargs"]
    if "allow_none" in kw:
        return isinstance(kw["allow_none"], ast.Constant) and kw["allow_none"].value is True
    if "load_default" in kw:
        return isinstance(kw["load_default"], ast.Constant) and kw["load_default"].value is None
    if "missing" in kw:
        return isinstance(kw["missing"], ast.Constant) and kw["missing"].value is None
    return False


def has_validate(node: ast.AST) -> List[ast.keyword]:
    return [kw for n in ast.walk(node) if isinstance(n, ast.Call) for kw in n.keywords if kw.arg == "validate"]


def post_load_hook(model, cls: ClassDef, deco: str):
    for cn in model.mro(cls.qualname):
        c = model.classes.get(cn)
        if c is None:
            continue
        for m in c.methods.values():
            if any((dotted(d.func if isinstance(d, ast.Call) else d) or "").split(".")[-1] == deco for d in m.node.decorator_list):
                return m
    return None


def run_hook(model, fn, schema_cls: str, data, extra_args=()):
    def run(ch):
        it = Interp(model, ch)
        sobj = Obj(schema_cls, {})
        try:
            return ("ret", it.call(it.getattr(sobj, fn.name, None, None), [data(it), *extra_args], {}, None, None))
        except PyRaise as err:
            return ("raise", err.exc.cls, repr(err.exc.fields.get("args")))

    outs = [o for _, o in explore(run)]
    if len(outs) != 1:
        raise Unsupported(f"{fn.qualname} forks into {len(outs)} paths")
    return outs[0]


def sample_value(it: Interp, model, field: str, info, none: bool):
    ann = str(info["annotation"])
    if none:
        return None
    if "bool" in ann:
        return True
    if "Dict" in ann:
        if "ConditionFulfilledValue" in ann:
            return {"2": "UNFULFILLED", "1": "FULFILLED", "3": "UNKNOWN", "4": "NEUTRAL"}
        if "EvaluatedFormatConstraint" in ann:
            return {"902": Obj("ahbicht.models.condition_nodes.EvaluatedFormatConstraint", {"format_constraint_fulfilled": False, "error_message": "m"})}
        return {"501": "text", "7P": "[1] U [2]"} if "packages" not in field else {"7P": "[1] U [2]"}
    if "List" in ann:
        if field == "package_keys":
            return ["2P", "1P", "10P", "2P"]
        if field == "time_condition_keys":
            return ["UB2", "UB1", "UB3", "UB2"]
        return ["2", "1", "10", "2"]
    if "RequirementIndicator" in ann:
        return it.enum(f"{ENUMS}.PrefixOperator", "U")
    if "UUID" in ann:
        return Obj("uuid.UUID", {"hex": "d106f335"})
    if "RequirementConstraintEvaluationResult" in ann:
        return Obj("ahbicht.models.evaluation_results.RequirementConstraintEvaluationResult", {"requirement_constraints_fulfilled": None, "requirement_is_conditional": None, "format_constraints_expression": None, "hints": None})
    if "FormatConstraintEvaluationResult" in ann:
        return Obj("ahbicht.models.evaluation_results.FormatConstraintEvaluationResult", {"format_constraints_fulfilled": True, "error_message": None})
    return f"text of {field}"


def check(ctx: Ctx) -> None:
    model = ctx.model
    for sname, mname in PAIRS:
        scls, mcls = model.cls(sname), model.cls(mname)
        sf = schema_fields(model, scls)
        mf = model.attrs_fields(mcls)
        short = scls.name
        ctx.count(len(sf) + len(mf))
        ctx.ob("C19.fields", f"{short}::names", set(sf) == set(mf),
               f"{short} declares fields {sorted(sf)} but {mcls.name} takes {sorted(mf)}: a round trip loses or cannot set {sorted(set(sf) ^ set(mf))}",
               file=scls.file, line=scls.node.lineno)
        keys = {}
        for name, info in sf.items():
            dk = info["kwargs"].get("data_key")
            keys[name] = dk.value if isinstance(dk, ast.Constant) else name
            for kw in has_validate(info["node"]):
                ctx.ob("C19.constraint", f"{short}.{name}", False,
                       f"{short}.{name} carries validate={norm(kw.value)}: the schema refuses values the model (and ahbicht itself) can hold, so such objects dump but do not load again",
                       file=scls.file, line=kw.value.lineno)
            if name in mf:
                ann0 = str(mf[name]["annotation"]).replace("Optional[", "").rstrip("]") if str(mf[name]["annotation"]).startswith("Optional[") else str(mf[name]["annotation"])
                want_type = ("Boolean" if ann0 == "bool" else "String" if ann0 == "str" else "Dict" if ann0.startswith("Dict") else "List" if ann0.startswith("List")
                             else "UUID" if ann0 == "UUID" else "Nested")
                ctx.ob("C19.type", f"{short}.{name}", info["type"] == want_type,
                       f"{short}.{name} is fields.{info['type']} but the model field is {mf[name]['annotation']} (expected fields.{want_type}): values change their type in a round trip",
                       file=scls.file, line=info["node"].lineno)
                may_be_none = bool(mf[name]["optional"] or mf[name]["validator_optional"])
                ctx.count()
                if may_be_none:
                    ctx.ob("C19.null", f"{short}.{name}", field_nullable(info),
                           f"{mcls.name}.{name} may be None ({mf[name]['annotation']}) but {short}.{name} = {norm(info['node'])} does not accept null on load "
                           "(marshmallow: allow_none defaults to load_default is None)", file=scls.file, line=info["node"].lineno)
                nested = info["type"] == "Nested"
                if nested and info["args"]:
                    target = norm(info["args"][0]).replace("()", "")
                    ann = str(mf[name]["annotation"])
                    want = {"RequirementIndicator": "RequirementIndicatorSchema"}.get(ann, ann.replace("Optional[", "").rstrip("]") + "Schema")
                    ctx.ob("C19.fields", f"{short}.{name}::nested", target.split(".")[-1] == want,
                           f"{short}.{name} nests {target}, the model field is {ann} (expected {want})", file=scls.file, line=info["node"].lineno)
        ctx.ob("C19.fields", f"{short}::keys", len(set(keys.values())) == len(keys), f"{short}: JSON keys {keys} are not distinct", file=scls.file)
        # post_load builds exactly the model from **data
        hook = post_load_hook(model, scls, "post_load")
        ctx.ob("C19.fields", f"{short}::post_load", hook is not None, f"{short} has no post_load hook constructing {mcls.name}", file=scls.file)
        if hook is None:
            continue
        for none in (False, True):
            holder: Dict[str, Any] = {}

            def data(it, none=none, holder=holder):
                d = {f: sample_value(it, model, f, info, none and bool(info["optional"] or info["validator_optional"])) for f, info in mf.items()}
                holder["data"] = {k: (list(v) if isinstance(v, list) else dict(v) if isinstance(v, dict) else v) for k, v in d.items()}
                return d

            out = run_hook(model, hook, sname, data)
            ctx.count()
            ok = out[0] == "ret" and isinstance(out[1], Obj) and out[1].cls == mname
            detail = ""
            if ok:
                it2 = Interp(model)
                for f, want in holder["data"].items():
                    got = out[1].fields.get(f)
                    if f == "requirement_constraints" and isinstance(got, dict) and isinstance(want, dict):
                        same = list(got) == list(want) and all(isinstance(v, EnumVal) and v.name == want[k] for k, v in got.items())
                    else:
                        same = it2.eq(got, want) and (not isinstance(want, list) or list(got) == list(want))
                    if not same:
                        ok = False
                        detail = f"field {f}: loaded {got!r}, dumped {want!r}"
                        break
            ctx.ob("C19.load", f"{short}::{'nulls' if none else 'values'}", ok,
                   f"{short}.{hook.name}(data) gives {out[:3] if out[0] != 'ret' else out[1]!r} for data {holder.get('data')}; it must build {mcls.name} with exactly those values. {detail}",
                   file=scls.file, line=hook.node.lineno, function=hook.qualname)
    # ---- ContentEvaluationResultSchema: every spelling of a state it accepts on load means the member of that name
    cers, cerm = model.cls(PAIRS[4][0]), model.cls(PAIRS[4][1])
    cer_hook = post_load_hook(model, cers, "post_load")
    cfv_members = model.enum_members(model.cls("ahbicht.models.condition_nodes.ConditionFulfilledValue"))
    if cer_hook is not None:
        cmf = model.attrs_fields(cerm)
        for mname, mvalue in cfv_members.items():
            for spelling in sorted({mvalue, mvalue.lower(), mvalue.capitalize(), f" {mvalue}"} if isinstance(mvalue, str) else {mvalue}):
                def data(it, spelling=spelling):
                    d = {f: sample_value(it, model, f, info, False) for f, info in cmf.items()}
                    d["requirement_constraints"] = {"1": spelling}
                    return d

                out = run_hook(model, cer_hook, cers.qualname, data)
                ctx.count()
                if out[0] == "raise":
                    # the loader is documented to be case-insensitive (upper, lower, capitalised); only padded text may be rejected
                    ok = isinstance(spelling, str) and spelling != spelling.strip()
                    got = out[1]
                else:
                    got = out[1].fields.get("requirement_constraints", {}).get("1") if isinstance(out[1], Obj) else out[1]
                    ok = isinstance(got, EnumVal) and got.name == mname
                ctx.ob("C19.load", f"ContentEvaluationResultSchema::state-spelling:{spelling!r}", ok,
                       f"ContentEvaluationResultSchema.{cer_hook.name} loads the requirement constraint state {spelling!r} as {got!r}; it must mean {mname} (or be rejected)",
                       file=cers.file, line=cer_hook.node.lineno, function=cer_hook.qualname)
    # ---- RequirementIndicatorSchema: dump -> load is the identity on all six members
    ris = model.cls(f"{ENUMS}.RequirementIndicatorSchema")
    pd, pl, prl = post_load_hook(model, ris, "post_dump"), post_load_hook(model, ris, "post_load"), post_load_hook(model, ris, "pre_load")
    ctx.require(pd is not None and pl is not None and prl is not None, "RequirementIndicatorSchema lost one of its pre_load/post_load/post_dump hooks")
    mm = model.enum_members(model.cls(f"{ENUMS}.ModalMark"))
    po = model.enum_members(model.cls(f"{ENUMS}.PrefixOperator"))
    ctx.ob("C19.enum", "disjoint", not (set(mm.values()) & set(po.values())), f"ModalMark and PrefixOperator share values {set(mm.values()) & set(po.values())}", file=ris.file)
    for cname, members in (("ModalMark", mm), ("PrefixOperator", po)):
        for name, value in members.items():
            dumped = run_hook(model, pd, ris.qualname, lambda it, value=value: {"value": value})
            ok = dumped[0] == "ret" and isinstance(dumped[1], str)
            loaded = None
            if ok:
                pre = run_hook(model, prl, ris.qualname, lambda it, d=dumped[1]: d)
                if pre[0] == "ret":
                    loaded = run_hook(model, pl, ris.qualname, lambda it, d=pre[1]: d)
            ctx.count()
            good = loaded is not None and loaded[0] == "ret" and isinstance(loaded[1], EnumVal) and loaded[1].cls.endswith(cname) and loaded[1].name == name
            ctx.ob("C19.enum", f"{cname}.{name}", good, f"{cname}.{name} dumps to {dumped[1:2]} and loads back as {loaded[1] if loaded and loaded[0] == 'ret' else loaded}", file=ris.file, line=pl.node.lineno, function=pl.qualname)
    # ConditionFulfilledValue: str() is the value; every value is what deserialize compares with
    cfv = model.cls("ahbicht.models.condition_nodes.ConditionFulfilledValue")
    for name, value in model.enum_members(cfv).items():
        def run(ch, name=name):
            it = Interp(model, ch)
            return it.to_str(it.enum(cfv.qualname, name), None, None)

        outs = [o for _, o in explore(run)]
        ctx.count()
        ctx.ob("C19.enum", f"ConditionFulfilledValue.{name}", outs == [value] and value == value.upper(), f"str(ConditionFulfilledValue.{name}) = {outs}, value {value!r}", file=cfv.file)
    # ---- no hidden state in (de)serialisation: a loaded object depends on the JSON text alone
    from ..purity import check_path

    schema_classes = [a for a, _b in PAIRS] + [f"{TREE_MOD}.TreeSchema", f"{TREE_MOD}.TokenSchema", f"{TREE_MOD}._TokenOrTreeSchema", f"{ENUMS}.RequirementIndicatorSchema"]
    roots = [f.qualname for f in model.functions.values() if f.module.name == TREE_MOD and f.cls is None]
    first_hook = post_load_hook(model, model.cls(PAIRS[0][0]), "post_load")
    if first_hook is not None:
        roots.append(first_hook.qualname)
    if roots:
        ctx.soft(lambda: check_path(ctx, "C19.state", roots, "loading a serialised object must not depend on what was (de)serialised before",
                                    extra_classes=[c for c in schema_classes if c in model.classes]))
    # ---- tree schemas
    ts, tok, tot = model.cls(f"{TREE_MOD}.TreeSchema"), model.cls(f"{TREE_MOD}.TokenSchema"), model.cls(f"{TREE_MOD}._TokenOrTreeSchema")
    tsf, tokf = schema_fields(model, ts), schema_fields(model, tok)
    ctx.ob("C19.tree", "TreeSchema::fields", set(tsf) == {"data", "children"}, f"TreeSchema fields {sorted(tsf)}; lark's Tree is rebuilt from data and children", file=ts.file, line=ts.node.lineno)
    ctx.ob("C19.tree", "TokenSchema::fields", set(tokf) == {"type", "value"}, f"TokenSchema fields {sorted(tokf)}; lark's Token is rebuilt from type and value", file=tok.file, line=tok.node.lineno)
    for sc, fs in ((ts, tsf), (tok, tokf), (tot, schema_fields(model, tot))):
        for name, info in fs.items():
            for kw in has_validate(info["node"]):
                ctx.ob("C19.constraint", f"{sc.name}.{name}", False,
                       f"{sc.name}.{name} carries validate={norm(kw.value)}: trees the parsers/resolver produce (e.g. an ahb_expression with three parts) dump but do not load again",
                       file=sc.file, line=kw.value.lineno)
    t = tree("or_composition", [tree("condition", [token("CONDITION_KEY", "1")]), tree("ahb", [token("A", "x"), token("B", "y"), token("C", "z")])])
    h = post_load_hook(model, ts, "post_load")
    out = run_hook(model, h, ts.qualname, lambda it: {"data": "and_composition", "children": [t, token("X", "1"), t]})
    ctx.ob("C19.tree", "TreeSchema::post_load", out[0] == "ret" and isinstance(out[1], Obj) and out[1].cls == "lark.Tree" and out[1].fields.get("data") == "and_composition"
           and len(out[1].fields.get("children") or []) == 3, f"TreeSchema.{h.name} gives {out[:2]}", file=ts.file, line=h.node.lineno, function=h.qualname)
    h = post_load_hook(model, tok, "post_load")
    # token values are text: whatever the grammars can put there comes back unchanged (leading zeros, padding, case, symbols)
    for ttype, tvalue in (("CONDITION_KEY", "17"), ("CONDITION_KEY", "01"), ("CONDITION_KEY", "007"), ("PACKAGE_KEY", "010P"), ("REPEATABILITY", "0..1"),
                          ("MODAL_MARK", "muss"), ("PREFIX_OPERATOR", "x"), ("CONDITION_EXPRESSION", " [1] u [2]\t∧ [03] "), ("TIME_CONDITION_KEY", "UB1")):
        out = run_hook(model, h, tok.qualname, lambda it, ttype=ttype, tvalue=tvalue: {"type": ttype, "value": tvalue})
        ctx.count()
        ctx.ob("C19.tree", f"TokenSchema::post_load::{ttype}:{tvalue!r}", out[0] == "ret" and isinstance(out[1], Obj) and out[1].cls == "lark.Token" and out[1].fields == {"type": ttype, "value": tvalue},
               f"TokenSchema.{h.name} turns the dumped token ({ttype}, {tvalue!r}) into {out[:2]}: the value must come back unchanged", file=tok.file, line=h.node.lineno, function=h.qualname)
    h = post_load_hook(model, tot, "post_load")
    tk = token("CONDITION_KEY", "3")
    for label, data, want in (("tree", {"tree": t, "token": None}, t), ("token", {"token": tk, "tree": None}, tk), ("token-only", {"token": tk}, tk)):
        out = run_hook(model, h, tot.qualname, lambda it, data=data: dict(data))
        ctx.count()
        ctx.ob("C19.tree", f"_TokenOrTreeSchema::load::{label}", out[0] == "ret" and out[1] is want, f"_TokenOrTreeSchema.{h.name}({label}) gives {out[:2]}", file=tot.file, line=h.node.lineno, function=h.qualname)
    h = post_load_hook(model, tot, "pre_dump")
    for label, val in (("tree", t), ("token", tk)):
        out = run_hook(model, h, tot.qualname, lambda it, val=val: val)
        ok = out[0] == "ret" and isinstance(out[1], Obj) and out[1].fields.get(label) is val and out[1].fields.get("token" if label == "tree" else "tree") is None
        ctx.count()
        ctx.ob("C19.tree", f"_TokenOrTreeSchema::dump::{label}", ok, f"_TokenOrTreeSchema.{h.name}({label}) gives {out[:2]}", file=tot.file, line=h.node.lineno, function=h.qualname)
    dk = {n: (i["kwargs"]["data_key"].value if isinstance(i["kwargs"].get("data_key"), ast.Constant) else n) for n, i in tsf.items()}
    ctx.ob("C19.tree", "TreeSchema::keys", len(set(dk.values())) == len(dk), f"TreeSchema JSON keys {dk} are not distinct", file=ts.file)
    ctx.assume("L7: marshmallow dumps None as null and rejects null on load unless allow_none (default: load_default is None); data_key applies to dump and load")
    ctx.assume("value-level fidelity of marshmallow's field classes (UUID, Dict, nested many) is library behaviour")
