"""C08 - format-constraint evaluation is Boolean and explains every failure."""
from __future__ import annotations

import itertools

from .. import refsem
from ..evalmodel import Harness
from ..fdvalues import Obj, PyRaise, explore
from ..rcsweep import report_sweep
from ..report import Ctx, Unsupported

EXPLANATION = (
    "Decided completely over the abstract operand domain (fulfilled in {True, False} x message in {None, text}): the "
    "tables of FormatConstraintTransformer.and_/or_/xor_composition give the Boolean and/or/xor of the operands and "
    "preserve the invariant 'message present <=> unfulfilled' (induction premise; step = L3). "
    "evaluate_single_format_constraint establishes the invariant for unfulfilled leaves without message; an absent or "
    "empty expression is fulfilled without message. Bounded: every pure format-constraint expression up to 3 operators "
    "over 3 keys and every collected expression of the C04 sweep is evaluated abstractly under every truth assignment "
    "and compared with its Boolean value under the documented precedence."
)
FCT = "ahbicht.expressions.format_constraint_expression_evaluation.FormatConstraintTransformer"
EFC = "ahbicht.models.condition_nodes.EvaluatedFormatConstraint"
FILE = "src/ahbicht/expressions/format_constraint_expression_evaluation.py"
BOOL = {"and_composition": lambda a, b: a and b, "or_composition": lambda a, b: a or b, "xor_composition": lambda a, b: a != b}


def check(ctx: Ctx) -> None:
    model = ctx.model
    cls = model.cls(FCT)
    dom = [(True, None), (False, "m1"), (True, "spurious"), (False, None)]
    for cb, fn_bool in BOOL.items():
        fn = model.find_method(cls, cb)
        ctx.require(fn is not None, f"anchor vanished: {FCT}.{cb}")
        for (lf, lm), (rf, rm) in itertools.product(dom, repeat=2):
            def run(ch, lf=lf, lm=lm, rf=rf, rm=rm, cb=cb):
                h = Harness(model, ch)
                it = h.it
                tobj = Obj(FCT, {"input_values": {}})
                left = Obj(EFC, {"format_constraint_fulfilled": lf, "error_message": lm})
                right = Obj(EFC, {"format_constraint_fulfilled": rf, "error_message": rm if rm is None else rm.replace("1", "2")})
                try:
                    res = it.call(it.getattr(tobj, cb, None, None), [left, right], {}, None, None)
                except PyRaise as err:
                    return ("raise", err.exc.cls)
                if not isinstance(res, Obj):
                    return ("value", repr(res))
                return ("ret", res.fields.get("format_constraint_fulfilled"), res.fields.get("error_message"))

            outs = {repr(o): o for _, o in explore(run)}
            if len(outs) != 1:
                raise Unsupported(f"{cb} not deterministic")
            out = next(iter(outs.values()))
            ctx.count()
            key = f"{cb}:{lf},{'msg' if lm else '-'};{rf},{'msg' if rm else '-'}"
            want = fn_bool(lf, rf)
            ctx.ob("C08.ops", key, out[0] == "ret" and out[1] is want,
                   f"{cb}(fulfilled={lf}, fulfilled={rf}) gives {out[:2]}, Boolean value is {want}", file=FILE, line=fn.node.lineno, function=cb)
            inv_in = (lm is not None) == (lf is False) and (rm is not None) == (rf is False)
            if inv_in and out[0] == "ret":
                ctx.ob("C08.inv", key, (out[2] is not None) == (out[1] is False),
                       f"{cb}: operands satisfy 'message iff unfulfilled' but the result is fulfilled={out[1]} with message {out[2]!r}",
                       file="src/ahbicht/expressions/expression_builder.py", function="FormatErrorMessageExpressionBuilder")
    # empty / absent expression
    for expr in (None, ""):
        def run(ch, expr=expr):
            h = Harness(model, ch)
            try:
                res = h.format_evaluation(expr)
            except PyRaise as err:
                return ("raise", err.exc.cls)
            return ("ret", res.fields.get("format_constraints_fulfilled"), res.fields.get("error_message"))

        outs = [o for _, o in explore(run)]
        ctx.count()
        ctx.ob("C08.empty", repr(expr), all(o == ("ret", True, None) for o in outs),
               f"format_constraint_evaluation({expr!r}) gives {outs}; an absent or empty expression counts as fulfilled without message",
               file=FILE, function="format_constraint_evaluation")
    # leaves: default message for unfulfilled constraints without message, single key expression
    for fulfilled, msg in ((True, None), (False, None), (False, "own message"), (False, " "), (False, "")):
        for is_async in (False, True):
            def run(ch, fulfilled=fulfilled, msg=msg, is_async=is_async):
                h = Harness(model, ch, fc={"901": (fulfilled, msg)}, async_keys=("901",) if is_async else ())
                try:
                    res = h.format_evaluation("[901]")
                except PyRaise as err:
                    return ("raise", err.exc.cls)
                return ("ret", res.fields.get("format_constraints_fulfilled"), res.fields.get("error_message"))

            outs = [o for _, o in explore(run)]
            ctx.count()
            ok = len(outs) == 1 and outs[0][0] == "ret" and outs[0][1] is fulfilled and ((outs[0][2] is not None) == (not fulfilled))
            if msg is not None:
                ok = ok and outs[0][2] == msg
            ctx.ob("C08.leaf", f"{fulfilled},{msg!r},{'async' if is_async else 'sync'}", ok,
                   f"single constraint [901] (fulfilled={fulfilled}, message={msg!r}, {'async' if is_async else 'sync'} evaluator) gives {outs}",
                   file="src/ahbicht/content_evaluation/fc_evaluators.py", function="FcEvaluator.evaluate_single_format_constraint")
    # bounded: pure format constraint expressions, every truth assignment, keys deliberately not in ascending order
    exprs = ["[901]", "[902] U [901]", "[902] O [901]", "[902] X [901]", "[902] U ([901] O [903])", "[903] O [901] U [902]",
             "[901] X [902] O [903]", "([902] X [901]) U [903]", "[901] U [901] O [902]", "[903] X [903]", "[902]∧[901]∨[903]",
             "[901] ⊻ [902] u [903]", "(([903] O [902]) U [901]) X [902]", "[901] X [902] X [903]", "[901]x([902]X[903])X[901]"]
    if ctx.tier == "thorough":
        keys = ("903", "901", "902")
        for ops in itertools.product(("U", "O", "X"), repeat=2):
            for perm in itertools.permutations(keys):
                exprs.append(f"[{perm[0]}] {ops[0]} [{perm[1]}] {ops[1]} [{perm[2]}]")
                exprs.append(f"[{perm[0]}] {ops[0]} ([{perm[1]}] {ops[1]} [{perm[2]}])")
    for text in exprs:
        ast_ = refsem.parse_condition(text)
        keys = sorted(set(refsem.keys_of(ast_)))
        for vals in itertools.product((True, False), repeat=len(keys)):
            fcs = dict(zip(keys, vals))
            def run(ch, fcs=fcs, text=text):
                h = Harness(model, ch, fc={k: (v, None if v else f"{k} violated") for k, v in fcs.items()})
                try:
                    res = h.format_evaluation(text)
                except PyRaise as err:
                    return ("raise", err.exc.cls)
                return ("ret", res.fields.get("format_constraints_fulfilled"), res.fields.get("error_message"))

            outs = [o for _, o in explore(run)]
            ctx.count()
            want = refsem.bool_expr_value(ast_, fcs)
            asg = ",".join(f"{k}={'T' if v else 'F'}" for k, v in fcs.items())
            ok = len(outs) == 1 and outs[0][0] == "ret" and outs[0][1] is want and ((outs[0][2] is not None) == (not want))
            ctx.ob("C08.expr", f"{text}@{asg}", ok, f"{text} under {asg} gives {outs}; Boolean value {want}, message iff unfulfilled", file=FILE)
    ctx.soft(lambda: report_sweep(ctx, ("C08.tree",), FILE))
    from ..purity import check_path

    ctx.soft(lambda: check_path(ctx, "C08.state", ["ahbicht.expressions.format_constraint_expression_evaluation.format_constraint_evaluation"],
               "the value of a format-constraint expression must depend on this evaluation's constraints only",
               extra_classes=["ahbicht.content_evaluation.fc_evaluators.FcEvaluator"]))
    from ..purity import check_models_and_transformers

    ctx.soft(lambda: check_models_and_transformers(ctx, "C08.state", "format constraint evaluation must not depend on earlier evaluations"))
    from .c12 import shipped_rule

    shipped_rule(ctx, "C08.shipped", ("fc",))

    # the shipped dictionary based evaluator end to end: results are handed on as provided - also an unfulfilled one without a message
    def shipped_e2e():
        from ..fdvalues import ClassVal

        NODES = "ahbicht.models.condition_nodes"
        for text, vals in (("[950] U [951]", {"950": False, "951": True}), ("[950] O [951]", {"950": False, "951": False}), ("[950] X [951]", {"950": True, "951": True}),
                           ("[950]", {"950": False}), ("([950] U [951]) O [952]", {"950": False, "951": True, "952": False})):
            for with_message in (True, False):
                def run(ch, text=text, vals=vals, with_message=with_message):
                    h = Harness(model, ch)
                    table = {k: Obj(f"{NODES}.EvaluatedFormatConstraint", {"format_constraint_fulfilled": v, "error_message": (None if v or not with_message else f"{k} violated")}) for k, v in vals.items()}
                    h.provider.fields["fc"] = h.it.construct(ClassVal("ahbicht.content_evaluation.fc_evaluators.DictBasedFcEvaluator"), [table], {}, None, None)
                    try:
                        r = h.format_evaluation(text)
                    except PyRaise as err:
                        return ("raise", err.exc.cls)
                    return ("ret", r.fields.get("format_constraints_fulfilled") if isinstance(r, Obj) else repr(r))

                outs = sorted({o for _t, o in explore(run)}, key=repr)
                want = refsem.fc_value(refsem.parse_condition(text), vals) if hasattr(refsem, "fc_value") else None
                if want is None:
                    import re as _re

                    expr_py = _re.sub(r"\[(\d+)\]", lambda m: str(vals[m.group(1)]), text).replace("U", " and ").replace("O", " or ").replace("X", " != ")
                    want = bool(eval(expr_py))  # noqa: S307 - a Boolean expression over True/False built from literals above
                ctx.count()
                ctx.ob("C08.shipped", f"e2e:{text}:{'with' if with_message else 'without'}-message", outs == [("ret", want)],
                       f"format_constraint_evaluation({text!r}) with the shipped DictBasedFcEvaluator ({vals}, unfulfilled results {'with' if with_message else 'without'} a message) gives {outs}; "
                       f"the Boolean value is {want}", file="src/ahbicht/expressions/format_constraint_expression_evaluation.py", function="format_constraint_evaluation")

    ctx.soft(shipped_e2e)
    ctx.assume("precedence of the re-parse is the documented one (C01); parse functions are summarised by the reference parser")
