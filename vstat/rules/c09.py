"""C09 - AHB expressions split into their parts; the first fulfilled part decides."""
from __future__ import annotations

from .. import ahbsweep
from .. import grammar as G
from .. import refsem
from .. import regexlang as R
from ..evalmodel import Harness, token
from ..fdvalues import EnumVal, Obj, PyRaise, explore
from ..purity import check_path
from ..report import Ctx

EXPLANATION = (
    "Terminal languages vs. callback look-ups: the (finite) languages of MODAL_MARK and PREFIX_OPERATOR are enumerated "
    "from the grammar and each word is pushed through the abstractly interpreted token callback, which must yield the "
    "documented normalised indicator. Tokenisation: the character class of CONDITION_EXPRESSION covers every character "
    "of the condition grammar, cannot swallow the start of a modal mark, and an indicator cannot be over-extended into a "
    "well-formed condition expression (deterministic maximal munch under L2). Selection: every AHB expression of the "
    "tier's bounded family (1-3 resp. 1-4 parts, 7 condition variants per part incl. UNKNOWN, hints, format constraints, "
    "invalid parts; bare indicators; prefix operators; all spellings) is evaluated abstractly in order and with reversed "
    "gather schedule and must return the first fulfilled part (else the last) with exactly that part's own outcome, "
    "hints and format result. Hidden-state rule on the whole evaluation path."
)
AHB_EVAL = "ahbicht.expressions.ahb_expression_evaluation"
AET = f"{AHB_EVAL}.AhbExpressionTransformer"
FILE = "src/ahbicht/expressions/ahb_expression_evaluation.py"
GFILE = "src/ahbicht/expressions/ahb_expression_parser.py"


def check(ctx: Ctx) -> None:
    model = ctx.model
    ga = G.load(model, G.AHB_MOD)
    gc = G.load(model, G.COND_MOD)
    G.report_options(ctx, "C09.shape", ga, GFILE, skip=("ordered_sets",))  # acceptance / the unambiguous part structure do not depend on it
    cls = model.cls(AET)
    # ---- C09.shape: a callback for every rule / alias / indicator terminal
    needed = {r.alias or r.origin for r in ga.rules if not (r.alias or r.origin).startswith("_")}
    for name in sorted(needed | {"MODAL_MARK", "PREFIX_OPERATOR"}):
        has = model.find_method(cls, name) is not None
        must = name in ("ahb_expression", "single_requirement_indicator_expression", "requirement_indicator", "MODAL_MARK", "PREFIX_OPERATOR")
        if must:
            ctx.ob("C09.shape", name, has, f"AhbExpressionTransformer has no callback for '{name}': Lark would silently leave the node/token unevaluated", file=FILE)
    for r in ga.rules:
        if (r.alias or r.origin) == "single_requirement_indicator_expression":
            ctx.ob("C09.shape", f"part-order:{r.origin}", [s[0] for s in r.expansion if not s[2]][-1] == "CONDITION_EXPRESSION" and len(r.expansion) == 2,
                   f"rule {r.origin}: a part must be 'indicator CONDITION_EXPRESSION' (indicator first), found {[s[0] for s in r.expansion]}", file=GFILE)
    # ---- C09.lookup
    for tname, kind in (("MODAL_MARK", "mm"), ("PREFIX_OPERATOR", "po")):
        words = R.words(ga.term(tname).parsed)
        ctx.require(words is not None and 0 < len(words) < 500, f"{tname} is not a finite language")
        fn = model.find_method(cls, tname)
        if fn is None:
            continue
        for w in words:
            def run(ch, w=w, tname=tname):
                h = Harness(model, ch)
                tobj = Obj(AET, {})
                try:
                    return ("ret", h.it.call(h.it.getattr(tobj, tname, None, None), [token(tname, w)], {}, None, None))
                except PyRaise as err:
                    return ("raise", err.exc.cls)

            outs = [o for _, o in explore(run)]
            ctx.count()
            try:
                want = ahbsweep.normal_indicator(kind, w)
            except KeyError:
                want = None
            got = outs[0][1] if len(outs) == 1 and outs[0][0] == "ret" else None
            ok = want is not None and isinstance(got, EnumVal) and (got.cls.rsplit(".", 1)[-1], got.name) == want
            ctx.ob("C09.lookup", f"{tname}:{w}", ok,
                   f"the grammar accepts {w!r} as {tname} but the callback gives {outs}; documented indicator: {want}", file=FILE, line=fn.node.lineno, function=fn.qualname)
        ctx.sample({"terminal": tname, "words": words[:12], "count": len(words)})
    # ---- C09.alphabet
    ce = ga.term("CONDITION_EXPRESSION")
    ce_first = R.first_chars(ce.parsed)
    ce_alpha = R.alphabet(ce.parsed)
    cond_alpha = R.EMPTY
    for t in gc.terminals.values():
        cond_alpha = cond_alpha.union(R.alphabet(gc.term(t.name).parsed))
    # only documented characters of well-formed expressions matter: ASCII digits, brackets, operators, P, ., UB, whitespace
    doc_alpha = R.alphabet(R.parse("[0-9\\[\\]()UuOoXx∧∨⊻P.B \\t\\f\\r\\n]+"))
    missing = doc_alpha.intersect(cond_alpha).minus(ce_alpha)
    ctx.count()
    ctx.ob("C09.alphabet", "covers-condition-language", missing.is_empty(),
           f"CONDITION_EXPRESSION = /{ce.regexp}/ cannot contain {missing.describe()} which occur in well-formed condition expressions: such parts are cut short",
           file=GFILE, line=ga.grammar_assign.lineno)
    mm = ga.term("MODAL_MARK")
    po = ga.term("PREFIX_OPERATOR")
    swallow = R.first_chars(mm.parsed).intersect(ce_alpha)
    ctx.count()
    ctx.ob("C09.alphabet", "stops-at-modal-mark", swallow.is_empty(),
           f"CONDITION_EXPRESSION can contain {swallow.describe()}, the first character of a modal mark: it would swallow the next part", file=GFILE, line=ga.grammar_assign.lineno)
    cond_first = R.first_chars(R.parse("[\\[( \\t\\f\\r\\n]"))
    for t in (mm, po):
        over = R.extension_chars(t.parsed).intersect(cond_first)
        ctx.count()
        ctx.ob("C09.alphabet", f"no-overextension:{t.name}", over.is_empty(), f"{t.name} can be extended by {over.describe()}, which can start a condition expression", file=GFILE, line=ga.grammar_assign.lineno)
    if ce.parsed.lookahead_not is not None:
        la = R.items_first_chars(ce.parsed.lookahead_not, ce.parsed.flags, ce.parsed.state)
        blocked = la.intersect(cond_first)
        ctx.count()
        ctx.ob("C09.alphabet", "lookahead", blocked.is_empty(), f"the look-ahead at the start of CONDITION_EXPRESSION can fire on {blocked.describe()}, the start of a well-formed condition expression", file=GFILE, line=ga.grammar_assign.lineno)
    ctx.ob("C09.alphabet", "nonempty", not R.matches_empty(ce.parsed) and ce_first.intersect(cond_first).minus(cond_first).is_empty(), "CONDITION_EXPRESSION matches the empty string", file=GFILE)
    ctx.ob("C09.alphabet", "no-ignore", not ga.ignore, f"the AHB grammar ignores {ga.ignore}: whitespace would no longer belong to the condition parts", file=GFILE)
    # ---- selection sweep
    ctx.soft(lambda: ahbsweep.report(ctx, ("C09.select", "C09.bare", "C12.order"), FILE))
    ctx.soft(lambda: check_path(ctx, "C09.state", [f"{AHB_EVAL}.evaluate_ahb_expression_tree"], "the result of an AHB expression must not depend on earlier evaluations"))
    from ..purity import check_models_and_transformers

    ctx.soft(lambda: check_models_and_transformers(ctx, "C09.state", "AHB expression evaluation must not depend on earlier evaluations"))
    ctx.assume("L2/L3; the reference splitting of refsem.parse_ahb was validated against the grammar rules decided in C02.cfg")
