"""C13 - validation covers the AHB tree once, in order; parents dominate children."""
from __future__ import annotations

import itertools
import re

from .. import refsem, valsweep
from ..fdai import Interp
from ..fdvalues import EnumVal, PyRaise, explore
from ..report import Ctx

EXPLANATION = (
    "Complete decision tables: map_requirement_validation_values (3 outcomes x 6 indicators x 2 flags) and "
    "combine_requirements_of_different_levels (4 parents x 9 children) are extracted from the AST by engine D and "
    "compared with the documented mapping and with the Markdown table in the function's own docstring. Bounded: the "
    "validation functions are interpreted abstractly on every chain group->segment->element (11 resp. 20 expression "
    "variants per node incl. UNKNOWN, invalid, bare and lower-case indicators, both flags), on depth-4 chains, on wide "
    "trees under both gather schedules and through validate_segment_level; the reported node list (once, document "
    "order, nothing below a forbidden node), every status, FILLED/EMPTY suffix and NotImplementedError for visited "
    "MUSS/prefix nodes with UNKNOWN outcome are compared with the reference."
)
VAL = "ahbicht.validation.validation"
FILE = "src/ahbicht/validation/validation.py"
RV = "ahbicht.models.validation_values.RequirementValidationValue"


def _call(model, qualname, make_args):
    def run(ch):
        it = Interp(model, ch)
        try:
            res = it.call(it.funcval(qualname), make_args(it), {}, None, None)
        except PyRaise as err:
            return f"raise:{err.exc.cls.rsplit('.', 1)[-1]}"
        return res.name if isinstance(res, EnumVal) else repr(res)

    outs = {o for _, o in explore(run)}
    return sorted(outs)


def check(ctx: Ctx) -> None:
    model = ctx.model
    fn_map = model.func(f"{VAL}.map_requirement_validation_values")
    fn_comb = model.func(f"{VAL}.combine_requirements_of_different_levels")
    indicators = [("ModalMark", "MUSS"), ("ModalMark", "SOLL"), ("ModalMark", "KANN"), ("PrefixOperator", "X"), ("PrefixOperator", "O"), ("PrefixOperator", "U")]
    table = {}
    for outcome, (icls, iname), flag in itertools.product((True, False, None), indicators, (True, False)):
        got = _call(model, fn_map.qualname, lambda it: [outcome, it.enum(f"ahbicht.models.enums.{icls}", iname), flag])
        want = refsem.map_status(outcome, iname if icls == "ModalMark" else "X", flag)
        ctx.count()
        table[f"{outcome},{iname},{flag}"] = got
        ctx.ob("C13.map", f"{outcome},{iname},flag={flag}", got == [want],
               f"map_requirement_validation_values({outcome}, {iname}, soll_is_required={flag}) gives {got}, documented: {want}",
               file=FILE, line=fn_map.node.lineno, function=fn_map.qualname)
    ctx.sample({"map_requirement_validation_values": table})
    # default of the flag parameter is True (documented default behaviour)
    members = list(model.enum_members(model.cls(RV)))
    ctable = {}
    for parent, child in itertools.product([None, "IS_REQUIRED", "IS_OPTIONAL", "IS_FORBIDDEN"], members):
        got = _call(model, fn_comb.qualname, lambda it: [None if parent is None else it.enum(RV, parent), it.enum(RV, child)])
        ctx.count()
        ctable[f"{parent},{child}"] = got
        if child in ("IS_REQUIRED", "IS_OPTIONAL", "IS_FORBIDDEN") and parent != "IS_FORBIDDEN":
            want = refsem.combine(parent, child)
            ctx.ob("C13.combine", f"{parent},{child}", got == [want], f"combine_requirements_of_different_levels({parent}, {child}) gives {got}, documented: {want}",
                   file=FILE, line=fn_comb.node.lineno, function=fn_comb.qualname)
    ctx.sample({"combine_requirements_of_different_levels": {k: v for k, v in ctable.items() if "AND" not in k}})
    # the docstring's own table
    doc = (fn_comb.node.body[0].value.value if fn_comb.node.body and hasattr(fn_comb.node.body[0], "value") and
           isinstance(getattr(fn_comb.node.body[0].value, "value", None), str) else "")
    word = {"required": "IS_REQUIRED", "optional": "IS_OPTIONAL", "forbidden": "IS_FORBIDDEN"}
    rows = re.findall(r"\|\s*(required|optional|forbidden)\s*\|\s*(required|optional|forbidden)\s*\|\s*(required|optional|forbidden)\s*\|", doc)
    for p, c, r in rows:
        ctx.count()
        ctx.ob("C13.docstring", f"{p},{c}", ctable.get(f"{word[p]},{word[c]}") == [word[r]],
               f"docstring table of combine_requirements_of_different_levels: {p} x {c} -> {r}, code gives {ctable.get(f'{word[p]},{word[c]}')}",
               file=FILE, line=fn_comb.node.lineno, function=fn_comb.qualname)
    ctx.units["docstring_rows"] = len(rows)
    # every FILLED/EMPTY name the free text branch can build is a member of the enum
    for base in ("IS_REQUIRED", "IS_OPTIONAL", "IS_FORBIDDEN"):
        for suffix in ("_AND_FILLED", "_AND_EMPTY"):
            ctx.ob("C13.suffix", base + suffix, base + suffix in members, f"{base + suffix} is not a member of RequirementValidationValue", file="src/ahbicht/models/validation_values.py")
    ctx.soft(lambda: valsweep.report(ctx, ("C13.tree", "C12.order")))
    from ..purity import check_path
    ctx.soft(lambda: check_path(ctx, "C13.state", [f"{VAL}.validate_deep_anwendungshandbuch", f"{VAL}.validate_segment_level", f"{VAL}.validate_segment_group", f"{VAL}.validate_segment", f"{VAL}.validate_data_element"],
                                "the status of a node must not depend on earlier validations"))
    ctx.assume("the expression evaluation below validation is summarised by the reference semantics (decided for the real pipeline by C02, C04-C10)")
    ctx.assume("L5: asyncio.gather returns results in argument order; every gathered coroutine runs in a copy of the context")
