"""C05 - hints, format constraints, brackets, operand order never change the requirement."""
from __future__ import annotations

from itertools import product

from ..rcsweep import RCT, abstract_nodes, callback_table, report_sweep
from ..refsem import F, K, N, U
from ..report import Ctx
from ..tables import STATES, operator_tables

EXPLANATION = (
    "The relations between different expressions follow by induction from local facts that are decided completely: "
    "NEUTRAL is a two-sided identity of & (and-ing a hint changes nothing), the three operator tables are symmetric and "
    "the raise condition of or_/xor_composition is symmetric (swapping operands), then_also keeps the partner's state "
    "and never raises for partners carrying a requirement constraint (attaching a format constraint), the tables are "
    "monotone in the information order UNKNOWN < {FULFILLED, UNFULFILLED} (refining UNKNOWN keeps a definite outcome). "
    "The callback tables are extracted from the AST over the abstract operand domain; the bounded whole-tree sweep "
    "(shared with C04) cross-checks the composition."
)
FILE = "src/ahbicht/expressions/requirement_constraint_expression_evaluation.py"
CN = "src/ahbicht/models/condition_nodes.py"


def refines(a: str, b: str) -> bool:
    """b refines a in the information order."""
    return a == b or (a == K and b in (F, U))


def check(ctx: Ctx) -> None:
    model = ctx.model
    tabs = operator_tables(model)
    cls = model.cls(RCT)
    specs = dict(abstract_nodes())
    for op, tab in tabs.items():
        for a in STATES:
            ctx.count(2)
            if op == "__and__":
                ctx.ob("C05.identity", f"{a}&NEUTRAL", tab[(a, N)] == a and tab[(N, a)] == a,
                       f"and-ing a NEUTRAL (hint) operand changes {a} into {tab[(a, N)]}/{tab[(N, a)]}", file=CN)
        for a, b in product(STATES, repeat=2):
            ctx.count()
            ctx.ob("C05.comm", f"{op}:{a},{b}", tab[(a, b)] == tab[(b, a)], f"{op} is not symmetric at ({a},{b})", file=CN)
        # monotone: refining UNKNOWN operands refines the result
        for a, b, a2, b2 in product(STATES, repeat=4):
            if refines(a, a2) and refines(b, b2) and (a, b) != (a2, b2):
                ctx.count()
                ctx.ob("C05.mono", f"{op}:{a},{b}->{a2},{b2}", refines(tab[(a, b)], tab[(a2, b2)]),
                       f"{a} {op} {b} = {tab[(a, b)]} but after resolving UNKNOWN: {a2} {op} {b2} = {tab[(a2, b2)]}", file=CN)
    # swapping operands of the callbacks: same state, same raise behaviour
    for cb in ("and_composition", "or_composition", "xor_composition"):
        fn = model.find_method(cls, cb)
        ctx.require(fn is not None, f"anchor vanished {cb}")
        table = callback_table(model, cb)
        for (lt, rt), out in table.items():
            ctx.count()
            sw = table[(rt, lt)]
            ok = out[0] == sw[0] and (out[0] != "ret" or out[1] == sw[1])
            ctx.ob("C05.swap", f"{cb}:{lt},{rt}", ok, f"{cb}({lt}, {rt}) gives {out[:2]} but swapped operands give {sw[:2]}",
                   file=FILE, line=fn.node.lineno, function=cb)
        if cb == "and_composition":
            for (lt, rt), out in table.items():
                if "Hint" in (lt, rt):
                    other = specs[rt if lt == "Hint" else lt]
                    ctx.count()
                    ctx.ob("C05.hint", f"{lt},{rt}", out[0] == "ret" and out[1] == other["state"],
                           f"and-ing a hint onto {other['cls']}({other['state']}) gives {out[:2]}", file=FILE, line=fn.node.lineno, function=cb)
    # attaching a format constraint to an operand that carries a requirement constraint
    cb = "then_also_composition"
    fn = model.find_method(cls, cb)
    ctx.require(fn is not None, f"anchor vanished {cb}")
    table = callback_table(model, cb)
    for (lt, rt), out in table.items():
        if "FC" not in (lt, rt) or lt == rt:
            continue
        other = specs[rt if lt == "FC" else lt]
        if other["state"] == N:
            continue
        ctx.count()
        ctx.ob("C05.attach", f"{lt},{rt}", out[0] == "ret" and out[1] == other["state"],
               f"attaching a format constraint to {other['cls']}({other['state']}) gives {out[:2]} instead of leaving the state unchanged",
               file=FILE, line=fn.node.lineno, function=cb)
    # a hint is information only - whatever its text is (the empty string is a legal hint text, None means 'no such hint')
    from .. import refsem
    from ..rcsweep import evaluate_tree, rc_assignments

    for text in ("[1] U [501]", "([1] U [501]) O [2]", "[501] U [1][901]", "[1] X ([2] U [501] U [502])"):
        e = refsem.parse_condition(text)
        for rc in rc_assignments(e):
            for hint_text in ("", "x"):
                hints = {k: hint_text for k in refsem.keys_of(e) if refsem.key_kind(k) == "hint"}
                rec = evaluate_tree(model, e, rc, hints=hints)
                ctx.count()
                want = refsem.outcome(refsem.state(e, rc))
                asg = ",".join(f"{k}={v[:3]}" for k, v in rc.items())
                ctx.ob("C05.hint-text", f"{text}@{asg}:{hint_text!r}", (rec.get("fulfilled"), rec.get("conditional")) == want,
                       f"{text} under {asg} with hint text {hint_text!r} gives {rec}; the hint must not change the outcome {want}",
                       file="src/ahbicht/expressions/hints_provider.py", function="HintsProvider.get_hints")
    ctx.soft(lambda: report_sweep(ctx, ("C04.tree", "C06.tree"), FILE))
    ctx.assume("brackets leave no node in the tree (decided by C01.brackets)")
