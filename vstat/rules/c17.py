"""C17 - value pools offer exactly the admissible qualifiers and judge input by them."""
from __future__ import annotations

from .. import valsweep
from ..purity import check_path
from ..report import Ctx

EXPLANATION = (
    "Decision table of validate_data_element_valuepool extracted by abstract interpretation over abstract pools: every pool "
    "of 1-2 (thorough: 1-3) entries with each entry's own outcome in {fulfilled, unfulfilled, UNKNOWN, invalid} x 8 entered "
    "inputs (absent, empty, each qualifier, foreign, a substring of a qualifier, a string spanning two qualifiers) x parent "
    "status {required, optional, forbidden}, plus a pool whose fulfilled qualifiers are not in alphabetical order: offered "
    "values (exactly the fulfilled/invalid ones, pool order; single entry always), status, flag for unexpected input, input "
    "cleared, forbidden when nothing is offered or the segment is forbidden. The loop body reads only the loop variable, so "
    "larger pools behave alike."
)


def check(ctx: Ctx) -> None:
    ctx.model.func("ahbicht.validation.validation.validate_data_element_valuepool")
    ctx.soft(lambda: valsweep.report(ctx, ("C17.pool",)))
    # the table above is extracted one validation at a time: nothing on the path may remember an earlier validation
    # (a cache of entry verdicts keyed by expression text survives a change of the condition states, C17-r2)
    ctx.soft(lambda: check_path(ctx, "C17.state", ["ahbicht.validation.validation.validate_data_element_valuepool", "ahbicht.validation.validation.validate_data_element"],
                                "the offered values must depend on this validation's condition states only"))
    ctx.assume("entry expressions are evaluated by the summarised pipeline (reference semantics)")
