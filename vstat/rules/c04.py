"""C04 - requirement-constraint evaluation equals the documented compositional semantics."""
from __future__ import annotations

from ..rcsweep import RCT, abstract_nodes, callback_table, report_sweep
from ..refsem import F, K, N, U, op4
from ..report import Ctx

EXPLANATION = (
    "Induction premises decided completely: the decision tables of RequirementConstraintTransformer.and_/or_/xor_/"
    "then_also_composition over an abstract operand domain (3 RC states, Hint, UnevaluatedFormatConstraint, 16 "
    "EvaluatedComposition shapes; 441 pairs per callback) are extracted from the AST by engine D and compared with "
    "the four-valued operators; the induction step is Lark's bottom-up Transformer (L3). In addition a bounded sweep "
    "interprets the whole pipeline (condition node builder, evaluators' gather/zip, transformer, outcome mapping) on "
    "every expression tree up to the tier's size bound under every FULFILLED/UNFULFILLED/UNKNOWN assignment and "
    "compares outcome (fulfilled, conditional) with the reference semantics."
)
FILE = "src/ahbicht/expressions/requirement_constraint_expression_evaluation.py"
OPS = {"and_composition": "and", "or_composition": "or", "xor_composition": "xor"}


def check(ctx: Ctx) -> None:
    model = ctx.model
    cls = model.cls(RCT)
    specs = dict(abstract_nodes())
    for cb, op in OPS.items():
        fn = model.find_method(cls, cb)
        ctx.require(fn is not None, f"anchor vanished: {RCT}.{cb}")
        table = callback_table(model, cb)
        for (lt, rt), out in table.items():
            ctx.count()
            ls, rs = specs[lt], specs[rt]
            if out[0] == "raise":
                if cb == "and_composition":
                    ctx.ob("C04.and", f"{lt}&{rt}", False, f"and_composition({lt}, {rt}) raises {out[1]}", file=FILE, line=fn.node.lineno, function=cb)
                continue  # the raise condition of or/xor is C06's table
            want = op4(op, ls["state"], rs["state"])
            ok = out[0] == "ret" and out[1] == want and out[2] == "EvaluatedComposition"
            ctx.ob(f"C04.{'and' if op == 'and' else 'orxor'}", f"{cb}:{lt},{rt}", ok,
                   f"{cb}({lt}, {rt}) yields {out[1:3]}, the four-valued {op} gives EvaluatedComposition with {want}",
                   file=FILE, line=fn.node.lineno, function=cb)
        ctx.sample({"callback": cb, "rows": len(table), "example": {f"{k[0]} , {k[1]}": list(v[:3]) for k, v in list(table.items())[:4]}})
    # then_also: the partner's state is kept
    cb = "then_also_composition"
    fn = model.find_method(cls, cb)
    ctx.require(fn is not None, f"anchor vanished: {RCT}.{cb}")
    table = callback_table(model, cb)
    for (lt, rt), out in table.items():
        if "FC" not in (lt, rt):
            continue  # outside the quantifier: juxtaposition attaches a single format constraint key
        ctx.count()
        other_t = rt if lt == "FC" else lt
        other = specs[other_t]
        if other["state"] != N:
            ok = out[0] == "ret" and out[1] == other["state"]
            what = f"then_also_composition({lt}, {rt}) yields {out[:2]}, the partner's state {other['state']} must be kept"
        elif other["cls"] == "Hint":
            ok = out[0] == "ret" and out[1] == N
            what = f"then_also_composition({lt}, {rt}) yields {out[:2]}, a hint with attached format constraint is NEUTRAL"
        else:
            continue  # neutral non-hint partner: outside the quantifier
        ctx.ob("C04.then", f"{lt},{rt}", ok, what, file=FILE, line=fn.node.lineno, function=cb)
    ctx.soft(lambda: report_sweep(ctx, ("C04.tree",), FILE))
    from ..purity import check_models_and_transformers

    ctx.soft(lambda: check_models_and_transformers(ctx, "C04.fresh", "the requirement outcome must be a function of tree and assignment only"))
    ctx.assume("L3: lark's Transformer calls the callbacks bottom-up with the transformed children (modelled in fdcalls.lark_transform)")
    ctx.assume("attrs validators of the node classes are not modelled (they only reject values of the wrong type)")
