"""C10 - resolving packages and time conditions is exact bracketed substitution."""
from __future__ import annotations

import itertools

from .. import refsem
from ..evalmodel import Harness, tree_to_ast
from ..fdvalues import Obj, PyRaise, explore
from ..purity import check_path
from ..report import Ctx, Unsupported

EXPLANATION = (
    "The resolver (parse_expression_including_unresolved_subexpressions, expand_packages, placeholder replacement, "
    "PackageExpansionTransformer, TimeConditionTransformer) is interpreted abstractly - parse functions summarised by the "
    "reference parser, Transformer per L3, gather in order and reversed - on a family of condition and AHB expressions with "
    "abbreviations at every position (single, repeated, neighbouring, with repeatability, nested in brackets, time "
    "conditions inside packages, packages inside packages) x package tables x the four flag combinations. The resulting "
    "tree must equal the reference parse of the textually substituted expression ([nP] -> (package expression), [UB1] -> "
    "[932], [UB2] -> [934], [UB3] -> ([932][492]X[934][493])), exactly one level of packages, NotImplementedError for an "
    "unknown package. Plus the hidden-state rule on the resolver path and the package resolvers."
)
RESOLVER = "ahbicht.expressions.expression_resolver.parse_expression_including_unresolved_subexpressions"
FILE = "src/ahbicht/expressions/expression_resolver.py"
TIME = {"UB1": ("key", "932"), "UB2": ("key", "934")}
UB3 = "[932][492]X[934][493]"


def ref_resolve(e, packages, resolve_packages: bool, replace_time: bool, inside_package: bool = False):
    if e[0] == "key":
        return e
    if e[0] == "time":
        if not replace_time:
            return e
        return TIME[e[1]] if e[1] in TIME else refsem.parse_condition(UB3)
    if e[0] == "pkg":
        if not resolve_packages or inside_package:
            return e
        expr = packages.get(e[1])
        if expr is None:
            raise NotImplementedError(e[1])
        return ref_resolve(refsem.parse_condition(expr), packages, resolve_packages, replace_time, inside_package=True)
    return (e[0], ref_resolve(e[1], packages, resolve_packages, replace_time, inside_package),
            ref_resolve(e[2], packages, resolve_packages, replace_time, inside_package))


def flat(e):
    """Grouping inside a run of one operator is unspecified (C01): compare modulo flattening."""
    if e[0] in ("key", "pkg", "time", "tree", "not-a-tree") or len(e) != 3:
        return e
    items = []

    def collect(x):
        if x[0] == e[0]:
            collect(x[1])
            collect(x[2])
        else:
            items.append(flat(x))

    collect(e)
    return (e[0], tuple(items))


PACKAGES = {
    "1P": "[1] U [2]", "2P": "[3] O [4]", "3P": "[5]", "4P": "[UB1] U [6]", "5P": "[1P] X [7]", "6P": "[8][901]", "7P": "[UB3]",
    "8P": "([9] O [10]) U [UB2]", "99P": None,
}
COND_CASES = [
    "[1P]", "[1P] U [2P]", "[2P] U [1P]", "[1P][2P]", "[1P] O [1P]", "([1P]) X ([2P] U [3P])", "[11] U [1P] U [12]", "[1P0..1]", "[2P1..5] O [1P]",
    "[1P0..10]", "[2P5..100] U [3P10..20]",
    "[3P] X [2P] X [1P]", "[4P]", "[4P] U [11]", "[UB1]", "[UB2] U [UB1]", "[UB3]", "[UB3] O [1]", "[1] U ([UB3])", "[5P]", "[5P] U [1P]",
    "[6P] X [13][902]", "[7P]", "[8P] O [4P]", "[UB1] U [1P]", "[4P] U [UB2]", "[1][901] U [2P]", "[11]", "[1] U [2]",
    "[1P] U [2P] U [3P] U [6P]", "([2P] O [3P])[903]",
]
AHB_CASES = ["Muss [1P]", "Muss [1P] U [UB1] Soll [2P]", "X [4P]", "Muss [UB3] Kann", "muss [2P0..1] u [11] S [7P]", "Kann [11]", "Muss"]
MISSING_CASES = ["[99P]", "[1P] U [99P]", "[98P]", "Muss [1P] Soll [99P]", "[99P] O [UB1]"]


SHIPPED_RESOLVER = "ahbicht.expressions.package_expansion.DictBasedPackageResolver"


def run_resolver(model, text, packages, resolve_packages, replace_time, order, shipped_for=None):
    """shipped_for: run with the shipped DictBasedPackageResolver (built by its real __init__) registered for data of that format"""
    def run(ch):
        go = (lambda n: range(n)) if order == "fwd" else (lambda n: reversed(range(n)))
        h = Harness(model, ch, packages=packages, gather_order=go, data_format=shipped_for)
        if shipped_for is not None:
            from ..fdvalues import ClassVal

            h.provider.fields["packages"] = h.it.construct(ClassVal(SHIPPED_RESOLVER), [dict(packages)], {}, None, None)
        try:
            res = h.call(RESOLVER, text, resolve_packages=resolve_packages, replace_time_conditions=replace_time)
        except PyRaise as err:
            return ("raise", err.exc.cls)
        return ("ret", res)

    outs = [o for _, o in explore(run)]
    if len(outs) != 1:
        raise Unsupported(f"resolver forks on {text!r}")
    return outs[0]


def expected(text, packages, resolve_packages, replace_time):
    try:
        parts = refsem.parse_ahb(text)
        conds = [c for (_k, _w, c) in parts]
        kind = "ahb"
    except refsem.RefSyntaxError:
        conds = [text]
        kind = "cond"
    try:
        return kind, [flat(ref_resolve(refsem.parse_condition(c), packages, resolve_packages, replace_time)) if c is not None else None for c in conds]
    except NotImplementedError:
        return kind, "raise:NotImplementedError"


def observed(kind, out):
    if out[0] == "raise":
        return f"raise:{out[1].rsplit('.', 1)[-1]}"
    t = out[1]
    if not (isinstance(t, Obj) and t.cls == "lark.Tree"):
        return f"value:{t!r}"
    if kind == "cond":
        return [flat(tree_to_ast(t))]
    res = []
    for part in t.fields["children"]:
        ch = part.fields["children"] if isinstance(part, Obj) and part.cls == "lark.Tree" else []
        sub = [c for c in ch if isinstance(c, Obj) and c.cls == "lark.Tree"]
        res.append(flat(tree_to_ast(sub[0])) if sub else None)
    return res


def check(ctx: Ctx) -> None:
    model = ctx.model
    model.func(RESOLVER)
    cases = [(t, True, True) for t in [*COND_CASES, *AHB_CASES, *MISSING_CASES]]
    flags = [(True, False), (False, True), (False, False)]
    sub = [*COND_CASES, *AHB_CASES] if ctx.tier == "thorough" else [*COND_CASES[:12:2], "[4P]", "[UB3]", "[4P] U [UB2]", "[7P]", *AHB_CASES[:3]]
    cases += [(t, rp, rt) for t in sub for (rp, rt) in flags]
    for text, rp, rt in cases:
        kind, want = expected(text, PACKAGES, rp, rt)
        key = f"{text} [packages={'on' if rp else 'off'},time={'on' if rt else 'off'}]"
        results = {}
        for order in ("fwd", "rev"):
            results[order] = observed(kind, run_resolver(model, text, PACKAGES, rp, rt, order))
            ctx.count()
        got = results["fwd"]
        ok = got == want
        rule = "C10.raise" if want == "raise:NotImplementedError" else "C10.subst"
        ctx.ob(rule, key, ok, f"resolving {key}: got {got}, textual bracketed substitution gives {want}", file=FILE,
               function="parse_expression_including_unresolved_subexpressions")
        ctx.ob("C10.order", key, results["rev"] == results["fwd"],
               f"resolving {key} depends on the completion order of the package look-ups: in order {results['fwd']}, reversed {results['rev']}",
               file=FILE, function="_replace_sub_coroutines_with_awaited_results")
    ctx.sample({"cases": len(cases), "examples": [c[0] for c in cases[:8]], "packages": PACKAGES})
    # one level only: there is no call path from the package callback back into the expansion
    pet = model.cls("ahbicht.expressions.expression_resolver.PackageExpansionTransformer")
    pa = model.find_method(pet, "_package_async") or model.find_method(pet, "package")
    ctx.require(pa is not None, "anchor vanished: PackageExpansionTransformer.package")
    reach = model.reachable(pa)
    back = [q for q in reach if q.endswith(".expand_packages") or q.endswith("PackageExpansionTransformer.package") and q != pa.qualname]
    ctx.ob("C10.onelevel", "no-recursion", not any(q.endswith(".expand_packages") for q in reach),
           f"package expansion can re-enter itself ({back}): more than one level of packages would be expanded", file=FILE, function=pa.qualname)
    ctx.soft(lambda: check_path(ctx, "C10.state", [RESOLVER], "resolving an expression must not depend on earlier resolutions",
               extra_classes=["ahbicht.expressions.package_expansion.PackageResolver"]))
    from ..purity import check_models_and_transformers

    ctx.soft(lambda: check_models_and_transformers(ctx, "C10.state", "resolving must not depend on earlier evaluations"))
    from .c12 import shipped_rule

    shipped_rule(ctx, "C10.shipped", ("pkg",))
    # the shipped dictionary based resolver end to end, for data of several formats
    import ast as _ast

    from ..fdai import Frame, Interp

    def shipped_e2e():
        pe_mod = model.module("ahbicht.expressions.package_expansion")
        for fmt in ("UTILMD", "MSCONS"):
            # the member of the format enum as the resolver module itself spells it
            fmt_val = Interp(model).eval(_ast.parse(f"EdifactFormat.{fmt}", mode="eval").body, Frame(None, pe_mod, None, set()))
            for text in ("[5] O [1P]", "Muss [2P] U [UB1]", "[4P]"):
                kind, want = expected(text, PACKAGES, True, True)
                got = observed(kind, run_resolver(model, text, PACKAGES, True, True, "fwd", shipped_for=fmt_val))
                ctx.count()
                ctx.ob("C10.shipped", f"e2e:{fmt}:{text}", got == want,
                       f"resolving {text!r} with the shipped DictBasedPackageResolver for {fmt} data: got {got}, textual bracketed substitution gives {want}",
                       file="src/ahbicht/expressions/package_expansion.py", function="DictBasedPackageResolver.get_condition_expression")

    ctx.soft(shipped_e2e)
    ctx.assume("L3/L4 (Transformer visits every node, scan_values yields every leaf); brackets leave no node (C01.brackets)")
