"""Reporting primitives shared by all rules: obligations, findings, evidence."""
from __future__ import annotations

import json
import os
import time
from dataclasses import dataclass, field
from pathlib import Path
from typing import Any, Dict, List, Optional

VERIF = Path(__file__).resolve().parent.parent


class AnalysisError(Exception):
    """The analysis cannot decide (anchor vanished, construct outside the supported subset ...): exit 2."""


class Unsupported(AnalysisError):
    """A construct outside the subset an engine understands."""


@dataclass
class Finding:
    rule: str
    key: str
    what: str
    file: Optional[str] = None
    line: Optional[int] = None
    function: Optional[str] = None
    detail: Any = None

    def as_dict(self, prop: str) -> Dict[str, Any]:
        return {
            "property": prop,
            "rule": self.rule,
            "key": self.key,
            "file": self.file,
            "line": self.line,
            "function": self.function,
            "explanation": self.what,
            "detail": self.detail,
        }


@dataclass
class Ctx:
    """Collects what one run of one property's rules analysed and found."""

    prop: str
    tier: str
    repo: Path
    model: Any = None  # SrcModel, set by the runner
    obligations: int = 0
    discharged: int = 0
    evaluations: int = 0
    nontrivial_keys: set = field(default_factory=set)
    bulk_distinct: int = 0  # distinct swept cases counted in bulk (each case is a distinct abstract input)
    findings: List[Finding] = field(default_factory=list)
    samples: List[Any] = field(default_factory=list)
    assumptions: List[str] = field(default_factory=list)
    units: Dict[str, Any] = field(default_factory=dict)
    rules_run: Dict[str, int] = field(default_factory=dict)
    notes: List[str] = field(default_factory=list)
    max_samples: int = 60
    undecided: List[str] = field(default_factory=list)  # parts that could not be decided (construct outside the subset ...)

    def soft(self, part) -> None:
        """Run one part of a property's rules; an AnalysisError there does not hide the findings of the other parts."""
        try:
            part()
        except AnalysisError as err:
            self.undecided.append(f"{type(err).__name__}: {err}")

    # -- obligations -------------------------------------------------------------------------
    def ob(
        self,
        rule: str,
        key: str,
        ok: bool,
        what: str,
        *,
        file: Optional[str] = None,
        line: Optional[int] = None,
        function: Optional[str] = None,
        detail: Any = None,
        nontrivial: bool = True,
    ) -> bool:
        """Record one rule instance (obligation). `key` identifies the construct (no line numbers)."""
        self.obligations += 1
        self.rules_run[rule] = self.rules_run.get(rule, 0) + 1
        full_key = f"{rule}::{key}"
        if nontrivial:
            self.nontrivial_keys.add(full_key)
        if ok:
            self.discharged += 1
        else:
            self.findings.append(
                Finding(rule=rule, key=full_key, what=what, file=file, line=line, function=function, detail=detail)
            )
        return ok

    def count(self, n: int = 1) -> None:
        """Count examined cases (table cells, call edges, strings ...)."""
        self.evaluations += n

    def sample(self, item: Any) -> None:
        if len(self.samples) < self.max_samples:
            self.samples.append(item)

    def assume(self, text: str) -> None:
        if text not in self.assumptions:
            self.assumptions.append(text)

    def note(self, text: str) -> None:
        self.notes.append(text)

    def require(self, cond: bool, msg: str) -> None:
        """An anchor the analysis needs; its absence is 'cannot decide', never a silent pass."""
        if not cond:
            raise AnalysisError(msg)


def load_known_findings() -> List[Dict[str, Any]]:
    path = VERIF / "known_findings.json"
    if not path.exists():
        return []
    return json.loads(path.read_text(encoding="utf-8"))


def write_evidence(ctx: Ctx, explanation: str, wall_s: float, violations: int, exhaustive: bool = False,
                   extra: Optional[Dict[str, Any]] = None) -> Path:
    seed = int(os.environ.get("VERIF_SEED", "0") or 0)
    coverage: Dict[str, Any] = {
        "explanation": explanation,
        "obligations": ctx.obligations,
        "discharged": ctx.discharged,
        "evaluations": max(ctx.evaluations, ctx.obligations),
        "distinct_nontrivial": len(ctx.nontrivial_keys) + ctx.bulk_distinct,
        "rule": "an obligation is one rule instance found on the current tree (a table cell, call edge, path, "
                "terminal, schema field ...); it is non-trivial when it has at least one constraint that can fail; "
                "distinct = distinct construct keys",
        "samples": ctx.samples if ctx.samples else ["(no samples recorded)"],
        "units": ctx.units,
        "rules": ctx.rules_run,
        "notes": ctx.notes,
    }
    if exhaustive:
        coverage["exhaustive"] = True
    if extra:
        coverage.update(extra)
    doc = {
        "property_id": ctx.prop,
        "tier": ctx.tier,
        "seed": seed,
        "level": "other",
        "coverage": coverage,
        "assumptions": ctx.assumptions,
        "wall_s": round(wall_s, 3),
        "violations": violations,
    }
    out = VERIF / "evidence" / f"{ctx.prop}.json"
    out.parent.mkdir(parents=True, exist_ok=True)
    tmp = out.with_suffix(".json.tmp")
    tmp.write_text(json.dumps(doc, indent=1, ensure_ascii=False, default=str), encoding="utf-8")
    tmp.replace(out)
    return out


def write_replay(prop: str, n: int, finding: Finding) -> Path:
    d = VERIF / "evidence" / "replay"
    d.mkdir(parents=True, exist_ok=True)
    p = d / f"{prop}-{n}.json"
    p.write_text(json.dumps(finding.as_dict(prop), indent=1, ensure_ascii=False, default=str), encoding="utf-8")
    return p


class Timer:
    def __enter__(self):
        self.t0 = time.time()
        return self

    def __exit__(self, *a):
        self.dt = time.time() - self.t0
