"""Decision-table extraction helpers built on engine D, plus the shared four-valued-logic tables."""
from __future__ import annotations

import re
from typing import Any, Callable, Dict, List, Optional, Tuple

from .fdai import Interp
from .fdvalues import Chooser, EnumVal, PyRaise, explore
from .report import AnalysisError, Unsupported
from .srcmodel import SrcModel

CFV = "ahbicht.models.condition_nodes.ConditionFulfilledValue"
STATES = ("FULFILLED", "UNFULFILLED", "UNKNOWN", "NEUTRAL")


def outcomes(model: SrcModel, body: Callable[[Interp], Any], **interp_kw) -> List[Tuple[list, Tuple]]:
    """All paths of `body(interp)`: [(trace, ('ret', value, interp) | ('raise', exc_obj, interp))]."""

    def run(ch: Chooser):
        it = Interp(model, ch, **interp_kw)
        try:
            return ("ret", body(it), it)
        except PyRaise as err:
            return ("raise", err.exc, it)

    return explore(run)


def single(model: SrcModel, body: Callable[[Interp], Any], what: str, **interp_kw) -> Tuple:
    """Outcome of a deterministic abstract run (exactly one path expected)."""
    res = outcomes(model, body, **interp_kw)
    if len(res) != 1:
        raise Unsupported(f"{what}: expected one path, got {len(res)} ({[t for t, _ in res][:3]})")
    return res[0][1]


def operator_tables(model: SrcModel) -> Dict[str, Dict[Tuple[str, str], str]]:
    """Complete tables of ConditionFulfilledValue.__and__/__or__/__xor__: (a, b) -> member name | 'raise:<cls>' ."""
    cls = model.cls(CFV)
    members = list(model.enum_members(cls))
    tables: Dict[str, Dict[Tuple[str, str], str]] = {}
    for op in ("__and__", "__or__", "__xor__"):
        if model.find_method(cls, op) is None:
            raise AnalysisError(f"anchor vanished: {CFV}.{op}")
        tab: Dict[Tuple[str, str], str] = {}
        for a in members:
            for b in members:
                def body(it: Interp, a=a, b=b, op=op):
                    va, vb = it.enum(CFV, a), it.enum(CFV, b)
                    return it.binop({"__and__": _AND, "__or__": _OR, "__xor__": _XOR}[op], va, vb, None, None)

                kind, val, _ = single(model, body, f"{op}({a},{b})")
                if kind == "raise":
                    tab[(a, b)] = f"raise:{val.cls}"
                elif isinstance(val, EnumVal) and val.cls == CFV:
                    tab[(a, b)] = val.name
                else:
                    tab[(a, b)] = f"value:{val!r}"
        tables[op] = tab
    return tables


import ast as _ast  # noqa: E402

_AND, _OR, _XOR = _ast.BitAnd(), _ast.BitOr(), _ast.BitXor()


def reference_tables() -> Dict[str, Dict[Tuple[str, str], str]]:
    """The four-valued logic as the properties state it (NEUTRAL identity, Kleene treatment of UNKNOWN)."""
    f, u, k, n = STATES

    def kleene(op, a, b):
        if a == n:
            return b
        if b == n:
            return a
        vals = []
        for ra in ([True, False] if a == k else [a == f]):
            for rb in ([True, False] if b == k else [b == f]):
                vals.append({"__and__": ra and rb, "__or__": ra or rb, "__xor__": ra != rb}[op])
        if all(vals):
            return f
        if not any(vals):
            return u
        return k

    return {op: {(a, b): kleene(op, a, b) for a in STATES for b in STATES} for op in ("__and__", "__or__", "__xor__")}


WORD = {"true": "FULFILLED", "false": "UNFULFILLED", "neutral": "NEUTRAL", "unknown": "UNKNOWN"}


def readme_truth_tables(text: str) -> Dict[str, List[Tuple[str, str, Optional[str]]]]:
    """Parse the three truth tables of README.rst (simple and grid RST tables).
    Returns op -> [(A, B, result | None for 'does not make sense')]."""
    out: Dict[str, List[Tuple[str, str, Optional[str]]]] = {}
    sections = re.split(r"``(and|or|xor)_composition``\n\^+\n", text)
    # sections = [before, 'and', body, 'or', body, 'xor', body]
    for i in range(1, len(sections) - 1, 2):
        op = f"__{sections[i]}__"
        body = sections[i + 1]
        rows: List[Tuple[str, str, Optional[str]]] = []
        for line in body.splitlines():
            cells: List[str]
            if line.startswith("|"):
                cells = [c.strip() for c in line.strip().strip("|").split("|")]
            elif re.match(r"^(Neutral|Unknown|True|False)\s", line):
                cells = line.split()
            else:
                continue
            if len(cells) < 3 or cells[0].lower() not in WORD or cells[1].lower() not in WORD:
                continue
            third = cells[2].lower()
            res = WORD.get(third)
            if res is None and "does not make sense" not in third:
                continue
            rows.append((WORD[cells[0].lower()], WORD[cells[1].lower()], res))
        out[op] = rows
        if op == "__xor__":
            break
    return out
