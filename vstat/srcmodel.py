"""Engine A: source model of /repo/src/ahbicht built from ASTs only (nothing is imported or executed).

Modules, imports, classes (bases, MRO, class-level assignments, attrs fields, enum members), functions (module level,
methods, nested), name resolution and a resolved call graph including Lark's implicit transformer edges.
An *overlay* {relative path: source text} replaces file contents in memory (used by the sabotage self-test).
"""
from __future__ import annotations

import ast
import builtins
import warnings
from dataclasses import dataclass, field
from pathlib import Path
from typing import Dict, Iterable, Iterator, List, Optional, Set, Tuple, Union

from .report import AnalysisError

SRC_PREFIX = "src/ahbicht"

# external classes whose (external) ancestry matters to the rules
EXTERNAL_BASES: Dict[str, List[str]] = {
    "enum.StrEnum": ["builtins.str", "enum.Enum"],
    "enum.IntEnum": ["builtins.int", "enum.Enum"],
    "enum.Enum": [],
    "lark.Transformer": [],
    "lark.visitors.Transformer": [],
    "marshmallow.Schema": [],
    "abc.ABC": [],
    "typing.NamedTuple": [],
    "builtins.BaseException": [],
    "builtins.Exception": ["builtins.BaseException"],
    "builtins.str": [],
}


# methods that external base classes define themselves (they win over repo classes later in the MRO)
EXTERNAL_METHODS: Dict[str, Tuple[str, ...]] = {
    "lark.Transformer": ("transform", "__default__", "__default_token__", "__mul__"),
    "lark.visitors.Transformer": ("transform", "__default__", "__default_token__", "__mul__"),
}


@dataclass
class FuncDef:
    qualname: str
    name: str
    node: Union[ast.FunctionDef, ast.AsyncFunctionDef]
    module: "Module"
    cls: Optional["ClassDef"] = None
    parent: Optional["FuncDef"] = None
    nested: Dict[str, "FuncDef"] = field(default_factory=dict)
    nested_nodes: Dict[int, "FuncDef"] = field(default_factory=dict)  # id(ast node) -> nested function

    @property
    def is_async(self) -> bool:
        return isinstance(self.node, ast.AsyncFunctionDef)

    @property
    def file(self) -> str:
        return self.module.relpath

    @property
    def params(self) -> List[str]:
        a = self.node.args
        return [x.arg for x in [*a.posonlyargs, *a.args, *a.kwonlyargs]]

    def param_default(self, name: str) -> Optional[ast.expr]:
        a = self.node.args
        pos = [*a.posonlyargs, *a.args]
        defaults = [None] * (len(pos) - len(a.defaults)) + list(a.defaults)
        for p, d in zip(pos, defaults):
            if p.arg == name:
                return d
        for p, d in zip(a.kwonlyargs, a.kw_defaults):
            if p.arg == name:
                return d
        return None

    def decorator_names(self) -> List[str]:
        return [dotted(d.func if isinstance(d, ast.Call) else d) or "?" for d in self.node.decorator_list]

    def __repr__(self) -> str:
        return f"<FuncDef {self.qualname}>"


@dataclass
class ClassDef:
    qualname: str
    name: str
    node: ast.ClassDef
    module: "Module"
    base_names: List[str] = field(default_factory=list)  # resolved dotted names
    methods: Dict[str, FuncDef] = field(default_factory=dict)
    assigns: Dict[str, ast.expr] = field(default_factory=dict)  # class-level NAME = value / NAME: T = value
    annotations: Dict[str, ast.expr] = field(default_factory=dict)

    @property
    def file(self) -> str:
        return self.module.relpath

    def __repr__(self) -> str:
        return f"<ClassDef {self.qualname}>"


def canonical_annotation(ann: ast.expr) -> str:
    """One spelling for equivalent annotations: `X | None` / `Union[X, None]` -> Optional[X], PEP 585 builtins
    (`list[str]`, `dict[..]`) -> List[..] / Dict[..], `typing.` prefixes dropped, string annotations unquoted."""
    if isinstance(ann, ast.Constant) and isinstance(ann.value, str):
        try:
            ann = ast.parse(ann.value, mode="eval").body
        except SyntaxError:
            return ann.value

    def rec(a: ast.expr) -> str:
        if isinstance(a, ast.BinOp) and isinstance(a.op, ast.BitOr):
            parts = []

            def flat(x):
                if isinstance(x, ast.BinOp) and isinstance(x.op, ast.BitOr):
                    flat(x.left)
                    flat(x.right)
                else:
                    parts.append(x)

            flat(a)
            non_none = [x for x in parts if not (isinstance(x, ast.Constant) and x.value is None)]
            inner = rec(non_none[0]) if len(non_none) == 1 else "Union[" + ", ".join(rec(x) for x in non_none) + "]"
            return f"Optional[{inner}]" if len(non_none) < len(parts) else inner
        if isinstance(a, ast.Subscript):
            head = rec(a.value)
            head = {"list": "List", "dict": "Dict", "tuple": "Tuple", "set": "Set", "type": "Type", "frozenset": "FrozenSet"}.get(head, head)
            elts = a.slice.elts if isinstance(a.slice, ast.Tuple) else [a.slice]
            args = [rec(x) for x in elts]
            if head == "Union" and "None" in args:
                rest = [x for x in args if x != "None"]
                return f"Optional[{rest[0] if len(rest) == 1 else 'Union[' + ', '.join(rest) + ']'}]"
            return f"{head}[{', '.join(args)}]"
        if isinstance(a, ast.Attribute):
            d = dotted(a) or norm(a)
            return d.split(".", 1)[1] if d.startswith(("typing.", "collections.abc.")) and d.count(".") >= 1 else d.rsplit(".", 1)[-1] if d.startswith("typing") else d
        if isinstance(a, ast.Constant):
            return "None" if a.value is None else (a.value if isinstance(a.value, str) else repr(a.value))
        return norm(a)

    return rec(ann)


def assigned_expr(st: ast.stmt, name: str) -> Optional[ast.expr]:
    """The expression a module-level assignment statement binds `name` to; for unpacking targets (`a, b = xs`) the
    synthetic expression `xs[i]` (None when it cannot be expressed, e.g. starred targets)."""
    if isinstance(st, ast.AnnAssign):
        return st.value
    if not isinstance(st, ast.Assign):
        return None

    def path(t: ast.expr, value: ast.expr) -> Optional[ast.expr]:
        if isinstance(t, ast.Name):
            return value if t.id == name else None
        if isinstance(t, (ast.Tuple, ast.List)):
            if any(isinstance(e, ast.Starred) for e in t.elts):
                return None
            for i, e in enumerate(t.elts):
                sub = ast.copy_location(ast.Subscript(value=value, slice=ast.copy_location(ast.Constant(value=i), value), ctx=ast.Load()), value)
                sub._vstat_unpack = True  # type: ignore[attr-defined]  # stands for "the i-th item the unpacking takes"
                got = path(e, sub)
                if got is not None:
                    return got
        return None

    for t in st.targets:
        got = path(t, st.value)
        if got is not None:
            return got
    return None


@dataclass
class Module:
    name: str
    relpath: str
    src: str
    tree: ast.Module
    imports: Dict[str, Tuple[str, Optional[str]]] = field(default_factory=dict)  # local name -> (module, attr|None)
    functions: Dict[str, FuncDef] = field(default_factory=dict)
    classes: Dict[str, ClassDef] = field(default_factory=dict)
    assigns: Dict[str, List[ast.stmt]] = field(default_factory=dict)  # module-level NAME -> assignment statements


def dotted(node: ast.AST) -> Optional[str]:
    """'a.b.c' for Name/Attribute chains, else None."""
    parts: List[str] = []
    while isinstance(node, ast.Attribute):
        parts.append(node.attr)
        node = node.value
    if isinstance(node, ast.Name):
        parts.append(node.id)
        return ".".join(reversed(parts))
    return None


def norm(node: ast.AST, limit: int = 160) -> str:
    """Normalised source text of a node, used in finding keys (stable under reformatting)."""
    try:
        text = ast.unparse(node)
    except Exception:  # pylint:disable=broad-except
        text = type(node).__name__
    text = " ".join(text.split())
    return text if len(text) <= limit else text[: limit - 3] + "..."


def walk_shallow(node: ast.AST) -> Iterator[ast.AST]:
    """Walk a function body without descending into nested function/class definitions or lambdas' own scopes."""
    stack = list(ast.iter_child_nodes(node))
    while stack:
        n = stack.pop()
        yield n
        if isinstance(n, (ast.FunctionDef, ast.AsyncFunctionDef, ast.ClassDef)):
            continue
        stack.extend(ast.iter_child_nodes(n))


@dataclass
class CallSite:
    caller: FuncDef
    node: ast.Call
    targets: List[FuncDef]  # resolved repo callees (may be several for dynamic dispatch)
    external: Optional[str]  # dotted name of an external callee if resolved to one
    how: str  # 'direct' | 'self' | 'class' | 'ctor' | 'annot' | 'byname' | 'transform' | 'unresolved' | 'external' | 'partial' | 'ref'
    arg_offset: int = 0  # 1 for functools.partial(f, ...): the callee's arguments start at args[1]

    @property
    def line(self) -> int:
        return self.node.lineno


class SrcModel:
    def __init__(self, repo: Path, overlay: Optional[Dict[str, str]] = None):
        self.repo = Path(repo)
        self.overlay = dict(overlay or {})
        from .evalmodel import STUB_PATH, STUB_SRC  # checker-side stub classes live in a virtual module
        self.overlay.setdefault(STUB_PATH, STUB_SRC)
        self.modules: Dict[str, Module] = {}
        self.functions: Dict[str, FuncDef] = {}
        self.classes: Dict[str, ClassDef] = {}
        self._callsites: Optional[Dict[str, List[CallSite]]] = None
        self._parents: Dict[int, Dict[int, ast.AST]] = {}
        self._load()

    # ------------------------------------------------------------------ loading
    def read(self, relpath: str) -> str:
        if relpath in self.overlay:
            return self.overlay[relpath]
        return (self.repo / relpath).read_text(encoding="utf-8")

    def _load(self) -> None:
        base = self.repo / SRC_PREFIX
        if not base.is_dir():
            raise AnalysisError(f"{base} does not exist")
        paths = sorted(str(p.relative_to(self.repo)) for p in base.rglob("*.py"))
        for rel in self.overlay:
            if rel.endswith(".py") and rel.startswith(SRC_PREFIX) and rel not in paths:
                paths.append(rel)
        for rel in paths:
            src = self.read(rel)
            try:
                with warnings.catch_warnings():
                    warnings.simplefilter("ignore")
                    tree = ast.parse(src, filename=rel)
            except SyntaxError as err:
                raise AnalysisError(f"{rel} does not parse: {err}") from err
            modname = rel[len("src/"):-3].replace("/", ".")
            if modname.endswith(".__init__"):
                modname = modname[: -len(".__init__")]
            mod = Module(name=modname, relpath=rel, src=src, tree=tree)
            self.modules[modname] = mod
        for mod in self.modules.values():
            self._index_module(mod)
        for cls in self.classes.values():
            cls.base_names = [self._resolve_base(cls, b) for b in cls.node.bases]

    def _index_module(self, mod: Module) -> None:
        is_pkg = mod.relpath.endswith("__init__.py")
        for node in ast.walk(mod.tree):
            if isinstance(node, ast.Import):
                for a in node.names:
                    local = a.asname or a.name.split(".")[0]
                    target = a.name if a.asname else a.name.split(".")[0]
                    mod.imports.setdefault(local, (target, None))
            elif isinstance(node, ast.ImportFrom):
                src_mod = node.module or ""
                if node.level:
                    pkg_parts = mod.name.split(".")
                    if not is_pkg:
                        pkg_parts = pkg_parts[:-1]
                    pkg_parts = pkg_parts[: len(pkg_parts) - (node.level - 1)]
                    src_mod = ".".join([*pkg_parts, src_mod] if src_mod else pkg_parts)
                for a in node.names:
                    mod.imports.setdefault(a.asname or a.name, (src_mod, a.name))

        def index_body(body: Iterable[ast.stmt]) -> None:
            for st in body:
                if isinstance(st, (ast.FunctionDef, ast.AsyncFunctionDef)):
                    self._index_function(st, mod, None, None, f"{mod.name}.{st.name}")  # a later def of the same name wins, like in Python
                elif isinstance(st, ast.ClassDef):
                    if st.name not in mod.classes:
                        self._index_class(st, mod)
                elif isinstance(st, ast.Assign):
                    for t in st.targets:
                        if isinstance(t, ast.Name):
                            mod.assigns.setdefault(t.id, []).append(st)
                        elif isinstance(t, (ast.Tuple, ast.List)):
                            for sub in ast.walk(t):  # a, (b, c) = ...
                                if isinstance(sub, ast.Name):
                                    mod.assigns.setdefault(sub.id, []).append(st)
                elif isinstance(st, ast.AnnAssign) and isinstance(st.target, ast.Name):
                    if st.value is not None:  # a bare annotation `NAME: T` binds nothing
                        mod.assigns.setdefault(st.target.id, []).append(st)
                elif isinstance(st, ast.If):
                    index_body(st.body)
                    index_body(st.orelse)
                elif isinstance(st, ast.Try):
                    index_body(st.body)
                    for h in st.handlers:
                        index_body(h.body)
                    index_body(st.orelse)

        index_body(mod.tree.body)

    def _index_function(self, node, mod: Module, cls: Optional[ClassDef], parent: Optional[FuncDef], qualname: str) -> FuncDef:
        n_dup = 1
        base_q = qualname
        while qualname in self.functions:
            n_dup += 1
            qualname = f"{base_q}#{n_dup}"
        fn = FuncDef(qualname=qualname, name=node.name, node=node, module=mod, cls=cls, parent=parent)
        self.functions[qualname] = fn
        if parent is not None:
            parent.nested[node.name] = fn
            parent.nested_nodes[id(node)] = fn
        elif cls is not None:
            cls.methods[node.name] = fn
        else:
            mod.functions[node.name] = fn
        for sub in walk_shallow(node):
            if isinstance(sub, (ast.FunctionDef, ast.AsyncFunctionDef)):
                self._index_function(sub, mod, cls, fn, f"{qualname}.<locals>.{sub.name}")
        return fn

    def _index_class(self, node: ast.ClassDef, mod: Module) -> None:
        cls = ClassDef(qualname=f"{mod.name}.{node.name}", name=node.name, node=node, module=mod)
        self.classes[cls.qualname] = cls
        mod.classes[node.name] = cls
        for st in node.body:
            if isinstance(st, (ast.FunctionDef, ast.AsyncFunctionDef)):
                self._index_function(st, mod, cls, None, f"{cls.qualname}.{st.name}")
            elif isinstance(st, ast.Assign):
                for t in st.targets:
                    if isinstance(t, ast.Name):
                        cls.assigns[t.id] = st.value
            elif isinstance(st, ast.AnnAssign) and isinstance(st.target, ast.Name):
                cls.annotations[st.target.id] = st.annotation
                if st.value is not None:
                    cls.assigns[st.target.id] = st.value

    # ------------------------------------------------------------------ name resolution
    def resolve_name(self, mod: Module, name: str, _seen: Optional[Set] = None) -> Optional[object]:
        """Resolve a module-level name to FuncDef | ClassDef | 'ext:<dotted>' | ('modvar', Module, name) | None."""
        _seen = _seen or set()
        if (mod.name, name) in _seen:
            return None
        _seen.add((mod.name, name))
        if name in mod.imports and not (name in mod.classes and mod.name != "ahbicht"):
            target_mod, attr = mod.imports[name]
            if attr is None:
                return f"ext:{target_mod}" if target_mod not in self.modules else self.modules[target_mod]
            if target_mod in self.modules:
                sub = f"{target_mod}.{attr}"
                if sub in self.modules:
                    return self.modules[sub]
                res = self.resolve_name(self.modules[target_mod], attr, _seen)
                if res is not None:
                    return res
                return None
            return f"ext:{target_mod}.{attr}"
        if name in mod.functions:
            return mod.functions[name]
        if name in mod.classes:
            return mod.classes[name]
        if name in mod.assigns:
            return ("modvar", mod, name)
        return None

    def resolve_expr(self, mod: Module, expr: ast.AST) -> Optional[object]:
        """Resolve Name / Attribute chain / Subscript(generic) at module scope."""
        if isinstance(expr, ast.Subscript):
            return self.resolve_expr(mod, expr.value)
        if isinstance(expr, ast.Name):
            return self.resolve_name(mod, expr.id)
        if isinstance(expr, ast.Attribute):
            base = self.resolve_expr(mod, expr.value)
            if isinstance(base, Module):
                sub = f"{base.name}.{expr.attr}"
                if sub in self.modules:
                    return self.modules[sub]
                return self.resolve_name(base, expr.attr)
            if isinstance(base, ClassDef):
                m = self.find_method(base, expr.attr)
                if m is not None:
                    return m
                return ("classattr", base, expr.attr)
            if isinstance(base, str) and base.startswith("ext:"):
                return f"{base}.{expr.attr}"
            return None
        return None

    def _resolve_base(self, cls: ClassDef, base: ast.expr) -> str:
        res = self.resolve_expr(cls.module, base)
        if isinstance(res, ClassDef):
            return res.qualname
        if isinstance(res, str) and res.startswith("ext:"):
            name = res[4:]
            if name == "ahbicht.StrEnum":
                return "enum.StrEnum"
            return name
        d = dotted(base.value if isinstance(base, ast.Subscript) else base)
        if d in ("str", "int", "BaseException", "Exception", "ValueError"):
            return f"builtins.{d}"
        return d or "?"

    # ------------------------------------------------------------------ classes
    def mro(self, cls_name: str) -> List[str]:
        """Linearisation (depth-first, left-to-right, last occurrence kept like C3 for the shapes used here)."""
        out: List[str] = []

        def visit(name: str) -> None:
            out.append(name)
            if name in self.classes:
                for b in self.classes[name].base_names:
                    visit(b)
            else:
                for b in EXTERNAL_BASES.get(name, []):
                    visit(b)

        visit(cls_name)
        # keep the last occurrence of duplicates (diamond), preserving order otherwise
        seen: Set[str] = set()
        res: List[str] = []
        for name in reversed(out):
            if name not in seen:
                seen.add(name)
                res.append(name)
        res.reverse()
        # the class itself first
        res.remove(cls_name)
        return [cls_name, *res]

    def is_subclass(self, cls_name: str, base: str) -> bool:
        return base in self.mro(cls_name)

    def subclasses(self, base: str) -> List[ClassDef]:
        return [c for c in self.classes.values() if c.qualname != base and base in self.mro(c.qualname)]

    def find_method(self, cls: ClassDef, name: str) -> Optional[FuncDef]:
        for cn in self.mro(cls.qualname):
            c = self.classes.get(cn)
            if c is not None and name in c.methods:
                return c.methods[name]
        return None

    def class_member(self, cls: ClassDef, name: str):
        """First definition of `name` along the MRO: ('method', FuncDef) | ('attr', value expr, owner ClassDef) | None."""
        for cn in self.mro(cls.qualname):
            c = self.classes.get(cn)
            if c is None:
                if name in EXTERNAL_METHODS.get(cn, ()):
                    return ("external", cn, None)
                continue
            in_m, in_a = name in c.methods, name in c.assigns
            if in_m and in_a:
                # the later statement in the class body wins
                if c.methods[name].node.lineno > c.assigns[name].lineno:
                    return ("method", c.methods[name])
                return ("attr", c.assigns[name], c)
            if in_m:
                return ("method", c.methods[name])
            if in_a:
                return ("attr", c.assigns[name], c)
        return None

    def class_attr(self, cls: ClassDef, name: str) -> Optional[ast.expr]:
        for cn in self.mro(cls.qualname):
            c = self.classes.get(cn)
            if c is not None and name in c.assigns:
                return c.assigns[name]
        return None

    def is_enum(self, cls: ClassDef) -> bool:
        return "enum.Enum" in self.mro(cls.qualname)

    def enum_members(self, cls: ClassDef) -> Dict[str, object]:
        """name -> value of the members in definition order; member values that are not literals (assembled from
        constants, tuples holding classes ...) are evaluated by the abstract interpreter."""
        literal = self.enum_members_literal(cls)
        names = [st.targets[0].id for st in cls.node.body if isinstance(st, ast.Assign) and len(st.targets) == 1
                 and isinstance(st.targets[0], ast.Name) and not st.targets[0].id.startswith("_") and not isinstance(st.value, ast.Lambda)]
        if all(n in literal for n in names):
            return literal
        cache = self.__dict__.setdefault("_enum_member_cache", {})
        if cls.qualname not in cache:
            from .fdai import Interp  # local import: the interpreter is built on this module

            cache[cls.qualname] = dict(Interp(self).members(cls))
        return cache[cls.qualname]

    def enum_members_literal(self, cls: ClassDef) -> Dict[str, object]:
        """name -> literal value, in definition order (members with non-literal values are left out)."""
        out: Dict[str, object] = {}
        for st in cls.node.body:
            if isinstance(st, ast.Assign) and len(st.targets) == 1 and isinstance(st.targets[0], ast.Name):
                name = st.targets[0].id
                if name.startswith("_"):
                    continue
                if isinstance(st.value, ast.Constant):
                    out[name] = st.value.value
                elif isinstance(st.value, (ast.Tuple, ast.UnaryOp)):
                    try:
                        out[name] = ast.literal_eval(st.value)  # e.g. members with several attributes: NAME = ("x", 0)
                    except (ValueError, TypeError, SyntaxError):
                        pass
        return out

    def attrs_fields(self, cls: ClassDef) -> Dict[str, Dict[str, object]]:
        """Fields of an attrs class incl. inherited ones: name -> {annotation, optional, has_default, default, validator_optional}."""
        fields: Dict[str, Dict[str, object]] = {}
        for cn in reversed(self.mro(cls.qualname)):
            c = self.classes.get(cn)
            if c is None:
                continue
            for st in c.node.body:
                if isinstance(st, ast.AnnAssign) and isinstance(st.target, ast.Name):
                    ann = canonical_annotation(st.annotation)
                    info: Dict[str, object] = {
                        "annotation": ann,
                        "optional": ann.startswith(("Optional[", "typing.Optional[")) or (ann.startswith("Union[") and "None" in ann) or ann == "None",
                        "has_default": False,
                        "default": None,
                        "validator_optional": False,
                        "node": st,
                    }
                    v = st.value
                    if v is not None:
                        if isinstance(v, ast.Call) and (dotted(v.func) or "").endswith("field"):
                            for kw in v.keywords:
                                if kw.arg in ("default", "factory"):
                                    info["has_default"] = True
                                    info["default"] = kw.value
                                if kw.arg == "validator" and norm(kw.value, 1000).startswith(("attrs.validators.optional(", "attr.validators.optional(", "validators.optional(", "optional(")):
                                    info["validator_optional"] = True
                                if kw.arg == "converter":
                                    info["converter"] = kw.value
                                if kw.arg == "validator":
                                    info["validator"] = kw.value
                        else:
                            info["has_default"] = True
                            info["default"] = v
                    fields[st.target.id] = info
        return fields

    # ------------------------------------------------------------------ functions
    def func(self, qualname: str) -> FuncDef:
        if qualname not in self.functions:
            raise AnalysisError(f"anchor vanished: function {qualname} not found in the source model")
        return self.functions[qualname]

    def cls(self, qualname: str) -> ClassDef:
        if qualname not in self.classes:
            raise AnalysisError(f"anchor vanished: class {qualname} not found in the source model")
        return self.classes[qualname]

    def module(self, name: str) -> Module:
        if name not in self.modules:
            raise AnalysisError(f"anchor vanished: module {name} not found in the source model")
        return self.modules[name]

    def find_function_by_name(self, name: str) -> List[FuncDef]:
        return [f for f in self.functions.values() if f.name == name]

    def module_constant(self, mod: Module, name: str) -> Optional[ast.expr]:
        """Value expression of a module-level name that is bound exactly once (else None)."""
        sts = mod.assigns.get(name, [])
        if len(sts) != 1:
            return None
        # also make sure no function declares it global and re-assigns it
        for fn in self.functions.values():
            if fn.module is mod:
                for n in ast.walk(fn.node):
                    if isinstance(n, ast.Global) and name in n.names:
                        return None
        return assigned_expr(sts[0], name)

    def parents(self, fn_or_tree) -> Dict[int, ast.AST]:
        root = fn_or_tree.node if isinstance(fn_or_tree, FuncDef) else fn_or_tree
        key = id(root)
        if key not in self._parents:
            m: Dict[int, ast.AST] = {}
            for p in ast.walk(root):
                for c in ast.iter_child_nodes(p):
                    m[id(c)] = p
            self._parents[key] = m
        return self._parents[key]

    # ------------------------------------------------------------------ local typing helpers
    def local_annotations(self, fn: FuncDef) -> Dict[str, ClassDef]:
        """Variables / parameters of `fn` whose annotation resolves to a repo class."""
        out: Dict[str, ClassDef] = {}
        a = fn.node.args
        for p in [*a.posonlyargs, *a.args, *a.kwonlyargs]:
            if p.annotation is not None:
                res = self._annotation_class(fn.module, p.annotation)
                if res is not None:
                    out[p.arg] = res
        for n in walk_shallow(fn.node):
            if isinstance(n, ast.AnnAssign) and isinstance(n.target, ast.Name):
                res = self._annotation_class(fn.module, n.annotation)
                if res is not None:
                    out[n.target.id] = res
        return out

    def _annotation_class(self, mod: Module, ann: ast.expr) -> Optional[ClassDef]:
        if isinstance(ann, ast.Constant) and isinstance(ann.value, str):
            try:
                ann = ast.parse(ann.value, mode="eval").body
            except SyntaxError:
                return None
        if isinstance(ann, ast.BinOp) and isinstance(ann.op, ast.BitOr):  # X | None
            sides = [x for x in (ann.left, ann.right) if not (isinstance(x, ast.Constant) and x.value is None)]
            return self._annotation_class(mod, sides[0]) if len(sides) == 1 else None
        if isinstance(ann, ast.Subscript):
            head = dotted(ann.value) or ""
            if head.split(".")[-1] in ("Optional", "Type", "type"):
                return self._annotation_class(mod, ann.slice)
            return self._annotation_class(mod, ann.value)
        res = self.resolve_expr(mod, ann)
        return res if isinstance(res, ClassDef) else None

    def self_attr_types(self, cls: ClassDef) -> Dict[str, ClassDef]:
        """`self.x: T = ...` / `self.x = T(...)` in __init__ → attribute types."""
        out: Dict[str, ClassDef] = {}
        for cn in self.mro(cls.qualname):
            c = self.classes.get(cn)
            if c is None or "__init__" not in c.methods:
                continue
            for n in ast.walk(c.methods["__init__"].node):
                tgt = None
                ann = None
                val = None
                if isinstance(n, ast.AnnAssign):
                    tgt, ann, val = n.target, n.annotation, n.value
                elif isinstance(n, ast.Assign) and len(n.targets) == 1:
                    tgt, val = n.targets[0], n.value
                if isinstance(tgt, ast.Attribute) and isinstance(tgt.value, ast.Name) and tgt.value.id == "self":
                    res = self._annotation_class(c.module, ann) if ann is not None else None
                    if res is None and isinstance(val, ast.Call):
                        r = self.resolve_expr(c.module, val.func)
                        res = r if isinstance(r, ClassDef) else None
                    if res is not None:
                        out.setdefault(tgt.attr, res)
        return out

    # ------------------------------------------------------------------ call graph
    def callsites(self, fn: FuncDef) -> List[CallSite]:
        if self._callsites is None:
            self._callsites = {}
        if fn.qualname not in self._callsites:
            self._callsites[fn.qualname] = self._compute_callsites(fn)
        return self._callsites[fn.qualname]

    def _lookup_local(self, fn: FuncDef, name: str) -> Optional[object]:
        cur: Optional[FuncDef] = fn
        while cur is not None:
            if name in cur.nested:
                return cur.nested[name]
            cur = cur.parent
        return self.resolve_name(fn.module, name)

    def _methods_named(self, name: str) -> List[FuncDef]:
        return [c.methods[name] for c in self.classes.values() if name in c.methods]

    def dispatch(self, cls: ClassDef, name: str) -> List[FuncDef]:
        """Possible targets of `obj.name()` for obj of static type cls: the inherited one plus overrides in subclasses."""
        out: List[FuncDef] = []
        m = self.find_method(cls, name)
        if m is not None:
            out.append(m)
        for sub in self.subclasses(cls.qualname):
            if name in sub.methods and sub.methods[name] not in out:
                out.append(sub.methods[name])
        return out

    def transformer_callbacks(self, cls: ClassDef) -> List[FuncDef]:
        """All methods of a lark Transformer subclass that lark may call back (public, non-dunder names)."""
        out: Dict[str, FuncDef] = {}
        for cn in reversed(self.mro(cls.qualname)):
            c = self.classes.get(cn)
            if c is None:
                continue
            for name, m in c.methods.items():
                if not name.startswith("_"):
                    out[name] = m
        return list(out.values())

    def is_transformer(self, cls: ClassDef) -> bool:
        m = self.mro(cls.qualname)
        return "lark.Transformer" in m or "lark.visitors.Transformer" in m

    def _compute_callsites(self, fn: FuncDef) -> List[CallSite]:
        sites: List[CallSite] = []
        annots = self.local_annotations(fn)
        self_types = self.self_attr_types(fn.cls) if fn.cls is not None else {}
        for n in walk_shallow(fn.node):
            if not isinstance(n, ast.Call):
                continue
            f = n.func
            targets: List[FuncDef] = []
            external: Optional[str] = None
            how = "unresolved"
            if isinstance(f, ast.Name):
                res = self._lookup_local(fn, f.id)
                if isinstance(res, FuncDef):
                    targets, how = [res], "direct"
                elif isinstance(res, ClassDef):
                    init = self.find_method(res, "__init__")
                    targets, how = ([init] if init else []), "ctor"
                elif isinstance(res, str):
                    external, how = res[4:], "external"
                elif hasattr(builtins, f.id):
                    external, how = f"builtins.{f.id}", "external"
            elif isinstance(f, ast.Attribute):
                recv = f.value
                if isinstance(recv, ast.Name) and recv.id in ("self", "cls") and fn.cls is not None:
                    targets = self.dispatch(fn.cls, f.attr)
                    how = "self" if targets else "unresolved"
                elif isinstance(recv, ast.Call) and isinstance(recv.func, ast.Name) and recv.func.id == "super" and fn.cls:
                    for cn in self.mro(fn.cls.qualname)[1:]:
                        c = self.classes.get(cn)
                        if c is not None and f.attr in c.methods:
                            targets, how = [c.methods[f.attr]], "class"
                            break
                    else:
                        how = "external"
                        external = f"super().{f.attr}"
                elif self._receiver_class(fn, recv) is not None:
                    cls = self._receiver_class(fn, recv)
                    if f.attr == "transform" and self.is_transformer(cls):
                        targets, how = [*self.dispatch(cls, "transform"), *self.transformer_callbacks(cls)], "transform"
                    else:
                        targets = self.dispatch(cls, f.attr)
                        how = "annot" if targets else "unresolved"
                elif isinstance(recv, ast.Attribute) and isinstance(recv.value, ast.Name) and recv.value.id == "self" \
                        and recv.attr in self_types:
                    targets = self.dispatch(self_types[recv.attr], f.attr)
                    how = "annot" if targets else "unresolved"
                elif isinstance(recv, ast.Name) and recv.id in annots:
                    targets = self.dispatch(annots[recv.id], f.attr)
                    how = "annot" if targets else "unresolved"
                else:
                    res = self.resolve_expr(fn.module, f)
                    if isinstance(res, FuncDef):
                        targets, how = [res], "class"
                    elif isinstance(res, ClassDef):
                        init = self.find_method(res, "__init__")
                        targets, how = ([init] if init else []), "ctor"
                    elif isinstance(res, str):
                        external, how = res[4:], "external"
                    else:
                        cand = self._methods_named(f.attr)
                        if cand and not f.attr.startswith("__"):
                            targets, how = cand, "byname"
            sites.append(CallSite(caller=fn, node=n, targets=targets, external=external, how=how))
            # functools.partial(f, ...) and function objects handed to map()/gather helpers are calls in waiting
            if external in ("functools.partial", "functools.partialmethod") and n.args:
                res = self._lookup_local(fn, n.args[0].id) if isinstance(n.args[0], ast.Name) else self.resolve_expr(fn.module, n.args[0])
                if isinstance(res, FuncDef):
                    sites.append(CallSite(caller=fn, node=n, targets=[res], external=None, how="partial", arg_offset=1))
            else:
                for a in [*n.args, *[k.value for k in n.keywords]]:
                    if isinstance(a, ast.Name):
                        res = self._lookup_local(fn, a.id)
                        if isinstance(res, FuncDef) and a.id not in fn.params:
                            sites.append(CallSite(caller=fn, node=n, targets=[res], external=None, how="ref"))
        # dispatch through name tables: `globals()[name]` / `getattr(obj, name)` with names taken from string constants
        dyn_globals = [n for n in walk_shallow(fn.node) if isinstance(n, ast.Call) and isinstance(n.func, ast.Name) and n.func.id == "globals"]
        dyn_getattr = [n for n in walk_shallow(fn.node) if isinstance(n, ast.Call) and isinstance(n.func, ast.Name) and n.func.id == "getattr"
                       and len(n.args) >= 2 and not isinstance(n.args[1], ast.Constant)]
        if dyn_globals or dyn_getattr:
            names = {c.value for c in ast.walk(fn.module.tree) if isinstance(c, ast.Constant) and isinstance(c.value, str) and c.value.isidentifier()}
            if dyn_globals:
                for nm in sorted(names):
                    tgt = fn.module.functions.get(nm)
                    if tgt is not None and tgt is not fn:
                        sites.append(CallSite(caller=fn, node=dyn_globals[0], targets=[tgt], external=None, how="ref"))
            for call in dyn_getattr:
                recv = call.args[0]
                rcls = fn.cls if isinstance(recv, ast.Name) and recv.id in ("self", "cls") else self._receiver_class(fn, recv)
                cands = [rcls] if rcls is not None else [c for c in self.classes.values() if c.module is fn.module]
                for c in cands:
                    for nm in sorted(names):
                        for tgt in self.dispatch(c, nm):
                            sites.append(CallSite(caller=fn, node=call, targets=[tgt], external=None, how="ref"))
        sites.sort(key=lambda s: (s.node.lineno, s.node.col_offset))
        return sites

    def _receiver_class(self, fn: FuncDef, recv: ast.expr) -> Optional[ClassDef]:
        """Class of the object a method is called on, when it is evident: `Cls(...)`, a local bound once to `Cls(...)`,
        a module-level name bound once to `Cls(...)`."""
        def of_value(v: Optional[ast.expr], mod) -> Optional[ClassDef]:
            if isinstance(v, ast.Call) and isinstance(v.func, (ast.Name, ast.Attribute)):
                res = self.resolve_expr(mod, v.func)
                if isinstance(res, ClassDef):
                    return res
            return None

        if isinstance(recv, ast.Call):
            return of_value(recv, fn.module)
        if isinstance(recv, ast.Name):
            if recv.id in fn.params:
                return None
            stores = [n for n in walk_shallow(fn.node) if isinstance(n, ast.Assign) and any(isinstance(t, ast.Name) and t.id == recv.id for t in n.targets)]
            if stores:
                classes = {id(c): c for c in (of_value(st.value, fn.module) for st in stores) if c is not None}
                return next(iter(classes.values())) if len(classes) == 1 and len(stores) == 1 else None
            res = self.resolve_name(fn.module, recv.id)
            if isinstance(res, tuple) and res[0] == "modvar":
                return of_value(self.module_constant(res[1], res[2]), res[1])
        return None

    def value_class(self, fn: FuncDef, expr: ast.expr, _depth: int = 0) -> Optional[ClassDef]:
        """Static class of an expression inside `fn`, when it is evident from annotations: annotated parameters and
        locals, `Cls(...)`, `self.attr` typed in __init__, and calls of methods/functions with a return annotation."""
        if _depth > 4:
            return None
        if isinstance(expr, ast.Await):
            return self.value_class(fn, expr.value, _depth + 1)
        if isinstance(expr, ast.Name):
            ann = self.local_annotations(fn)
            if expr.id in ann:
                return ann[expr.id]
            if expr.id == "self" and fn.cls is not None:
                return fn.cls
            stores = [n for n in walk_shallow(fn.node) if isinstance(n, ast.Assign) and any(isinstance(t, ast.Name) and t.id == expr.id for t in n.targets)]
            if len(stores) == 1:
                return self.value_class(fn, stores[0].value, _depth + 1)
            return None
        if isinstance(expr, ast.Attribute) and isinstance(expr.value, ast.Name) and expr.value.id == "self" and fn.cls is not None:
            return self.self_attr_types(fn.cls).get(expr.attr)
        if isinstance(expr, ast.Call):
            f = expr.func
            if isinstance(f, (ast.Name, ast.Attribute)):
                res = self.resolve_expr(fn.module, f) if not (isinstance(f, ast.Name) and f.id in fn.params) else None
                if isinstance(res, ClassDef):
                    return res
                if isinstance(res, FuncDef) and res.node.returns is not None:
                    return self._annotation_class(res.module, res.node.returns)
            if isinstance(f, ast.Attribute):
                rc = self.value_class(fn, f.value, _depth + 1)
                if rc is not None:
                    m = self.find_method(rc, f.attr)
                    if m is not None and m.node.returns is not None:
                        return self._annotation_class(m.module, m.node.returns)
        return None

    def callees(self, fn: FuncDef) -> List[FuncDef]:
        out: List[FuncDef] = []
        for s in self.callsites(fn):
            for t in s.targets:
                if t not in out:
                    out.append(t)
        # a nested function that is referenced (e.g. appended as coroutine) counts as callee
        for name, sub in fn.nested.items():
            if sub not in out:
                out.append(sub)
        return out

    def reachable(self, start: FuncDef, stop: Optional[Set[str]] = None) -> Dict[str, List[str]]:
        """qualname -> one call path (list of qualnames) from start."""
        paths: Dict[str, List[str]] = {start.qualname: [start.qualname]}
        work = [start]
        while work:
            cur = work.pop()
            if stop and cur.qualname in stop and cur is not start:
                continue
            for c in self.callees(cur):
                if c.qualname not in paths:
                    paths[c.qualname] = [*paths[cur.qualname], c.qualname]
                    work.append(c)
        return paths

    def callers_of(self, target: FuncDef) -> List[CallSite]:
        out: List[CallSite] = []
        for fn in self.functions.values():
            for s in self.callsites(fn):
                if target in s.targets:
                    out.append(s)
        return out
