"""AHB-level bounded sweep: multi-part AHB expressions through the abstractly interpreted AhbExpressionTransformer,
under every gather schedule that matters (in order / reversed), compared with 'first fulfilled part, else last'."""
from __future__ import annotations

import itertools
from typing import Any, Dict, List, Optional, Tuple

from . import refsem
from .evalmodel import Harness, ahb_tree, default_hints
from .fdvalues import EnumVal, Obj, PyRaise, explore
from .rcsweep import INVALID, disk_cached
from .refsem import F, K, U
from .report import Unsupported
from .srcmodel import SrcModel

# condition variants of a part using key index i (keys i, 50i, 90i): (label, text template, rc state or None, validity)
VARIANTS = [
    ("F", "[{i}]", F), ("U", "[{i}]", U), ("K", "[{i}]", K), ("hint", "[50{i}]", None),
    ("F+fc", "[{i}][90{i}]", F), ("U+hint", "[{i}] U [50{i}]", U), ("invalid", "[{i}] O [50{i}]", F),
    ("U+fc", "[{i}] U ([1{i}][90{i}])", U),  # unfulfilled as a whole, yet it collects the violated [90i] of a fulfilled branch
]
MM_SPELL = ["Muss", "soll", "K", "m", "SOLL", "kann", "S", "Kann", "M"]
PO_SPELL = ["X", "o", "U", "x", "O", "u"]


def normal_indicator(kind: str, written: str) -> Tuple[str, str]:
    if kind == "mm":
        return ("ModalMark", refsem.MODAL[written.upper()])
    return ("PrefixOperator", written.upper())


def part_record(res: Obj) -> Dict[str, Any]:
    rc = res.fields.get("requirement_constraint_evaluation_result")
    fc = res.fields.get("format_constraint_evaluation_result")
    ind = res.fields.get("requirement_indicator")
    return {
        "indicator": (ind.cls.rsplit(".", 1)[-1], ind.name) if isinstance(ind, EnumVal) else repr(ind),
        "fulfilled": rc.fields.get("requirement_constraints_fulfilled") if isinstance(rc, Obj) else repr(rc),
        "conditional": rc.fields.get("requirement_is_conditional") if isinstance(rc, Obj) else None,
        "hints": repr(rc.fields.get("hints")) if isinstance(rc, Obj) else None,
        "fce": rc.fields.get("format_constraints_expression") if isinstance(rc, Obj) else None,
        "fc_fulfilled": fc.fields.get("format_constraints_fulfilled") if isinstance(fc, Obj) else repr(fc),
        "fc_message": repr(fc.fields.get("error_message")) if isinstance(fc, Obj) else None,
    }


def evaluate(model: SrcModel, parts: List[Tuple[str, str, Optional[str]]], rc: Dict[str, str], fc: Dict[str, Any],
             order: str = "fwd", async_keys: Tuple[str, ...] = ()) -> Dict[str, Any]:
    keys = [k for (_, _, c) in parts if c for k in refsem.keys_of(refsem.parse_condition(c))]

    def run(ch):
        go = (lambda n: range(n)) if order == "fwd" else (lambda n: reversed(range(n)))
        h = Harness(model, ch, rc=rc, fc=fc, hints=default_hints(keys), gather_order=go, async_keys=async_keys)
        t = ahb_tree([(k, ind, refsem.parse_condition(c) if c is not None else None) for (k, ind, c) in parts])
        try:
            res = h.evaluate_ahb_tree(t)
        except PyRaise as err:
            return {"raise": err.exc.cls}
        if not isinstance(res, Obj):
            return {"value": repr(res)}
        return part_record(res)

    outs = [o for _, o in explore(run)]
    if len(outs) != 1:
        raise Unsupported(f"AHB evaluation forks into {len(outs)} paths")
    return outs[0]


def cases(tier: str) -> List[List[Tuple[str, str, Optional[str], str]]]:
    """Lists of parts (kind, written indicator, condition text|None, variant label)."""
    out: List[List[Tuple[str, str, Optional[str], str]]] = []
    maxk = 3 if tier == "quick" else 4
    spell = itertools.cycle(MM_SPELL)
    for k in range(1, maxk + 1):
        variants = VARIANTS if k <= 2 else VARIANTS[:3] + (VARIANTS[6:8] if tier != "quick" or k == 3 else [])
        for combo in itertools.product(variants, repeat=k):
            parts = [("mm", next(spell), tmpl.format(i=i + 1), label) for i, (label, tmpl, _st) in enumerate(combo)]
            out.append(parts)
            if k < maxk:
                out.append([*parts, ("mm", next(spell), None, "bare")])
    # the same indicator in several parts (e.g. after rewriting SOLL to MUSS)
    for word in ("Muss", "kann", "S"):
        for combo in itertools.product(VARIANTS[:3], repeat=2):
            out.append([("mm", word, tmpl.format(i=i + 1), label) for i, (label, tmpl, _st) in enumerate(combo)])
        out.append([("mm", word, "[1]", "U"), ("mm", word, "[2]", "F"), ("mm", word, None, "bare")])
    for w in MM_SPELL[:6]:
        out.append([("mm", w, None, "bare")])
    for w in PO_SPELL:
        out.append([("po", w, None, "bare")])
        for (label, tmpl, _st) in VARIANTS:
            out.append([("po", w, tmpl.format(i=1), label)])
    return out


def check_case(model: SrcModel, parts4) -> List[Tuple[str, str, str]]:
    problems: List[Tuple[str, str, str]] = []
    parts = [(k, w, c) for (k, w, c, _l) in parts4]
    text = "".join(w + (c or "") + " " for (k, w, c) in parts).strip()
    rc: Dict[str, str] = {}
    fc: Dict[str, Any] = {}
    for i, (_k, _w, _c, label) in enumerate(parts4, 1):
        st = {v[0]: v[2] for v in VARIANTS}.get(label)
        if st is not None:
            rc[str(i)] = st
        rc[f"1{i}"] = F
        fc[f"90{i}"] = (False, f"90{i} violated")
    own = []
    for p in parts:
        own.append(evaluate(model, [p], rc, fc))
        # a single part must report exactly what the requirement / format evaluation of its own condition expression gives
        if p[2] is not None and "raise" not in own[-1] and "value" not in own[-1]:
            from .rcsweep import evaluate_tree

            cond = refsem.parse_condition(p[2])
            fcb = {k: v[0] for k, v in fc.items() if k in refsem.keys_of(cond)}
            direct = evaluate_tree(model, cond, {k: v for k, v in rc.items() if k in refsem.keys_of(cond)}, fcb)
            got_ = (own[-1].get("fulfilled"), own[-1].get("fce"), own[-1].get("fc_fulfilled"), own[-1].get("fc_message"))
            want_ = (direct.get("fulfilled"), direct.get("fce"), direct.get("fc_fulfilled"), repr(direct.get("fc_message")))
            if "raise" not in direct and got_ != want_:
                problems.append(("C09.select", text, f"part {p[1]}{p[2]}: the AHB-level result (fulfilled, format expression, format fulfilled, message) = {got_} "
                                                     f"differs from the result of its own condition expression {want_}"))
    # validity is structural: a part is invalid iff the reference says so about its condition expression (a bare indicator never is)
    for p_, r_ in zip(parts, own):
        ref_invalid = p_[2] is not None and not refsem.valid(refsem.parse_condition(p_[2]))
        if (r_.get("raise") == INVALID) != ref_invalid:
            problems.append(("C09.select", text, f"part {p_[1]}{p_[2] or ''}: evaluation {'raises InvalidExpressionError' if not ref_invalid else 'gives ' + str(r_)} "
                                                 f"but structurally the part is {'invalid' if ref_invalid else 'valid'}"))
            return problems
    any_invalid = any(r.get("raise") == INVALID for r in own)
    fwd = evaluate(model, parts, rc, fc, order="fwd")
    rev = evaluate(model, parts, rc, fc, order="rev")
    if rev != fwd:
        problems.append(("C12.order", text, f"{text}: the result depends on the completion order of the gathered parts: in order {fwd}, reversed {rev}"))
    got = fwd
    if any_invalid:
        if got.get("raise") != INVALID:
            problems.append(("C06.noshort", text, f"{text}: a part is invalid but evaluation gives {got} instead of raising InvalidExpressionError"))
        return problems
    if "raise" in got or "value" in got:
        problems.append(("C09.select", text, f"{text}: evaluation gives {got}"))
        return problems
    want_i = next((i for i, r in enumerate(own) if r.get("fulfilled")), len(own) - 1)
    want = dict(own[want_i])
    kind, written, _c = parts[want_i]
    want["indicator"] = normal_indicator(kind, written)
    cmp_keys = ["indicator", "fulfilled", "hints", "fce", "fc_fulfilled", "fc_message"]
    diff = {k: (got.get(k), want.get(k)) for k in cmp_keys if got.get(k) != want.get(k)}
    if got.get("conditional") not in (want.get("conditional"), True):
        diff["conditional"] = (got.get("conditional"), want.get("conditional"))
    if diff:
        problems.append(("C09.select", text, f"{text}: expected part #{want_i + 1} ({written}); differences (got, expected): {diff}"))
    if len(parts) == 1 and parts[0][2] is None:
        bare = (got.get("fulfilled"), got.get("conditional"), got.get("hints"), got.get("fce"), got.get("fc_fulfilled"), got.get("fc_message"))
        if bare != (True, False, "None", None, True, "None"):
            problems.append(("C09.bare", text, f"bare indicator {text}: {got}; must be fulfilled, unconditional, without hints/format constraints"))
    return problems


def cached_ahb_sweep(model: SrcModel, tier: str):
    def compute():
        cs = cases(tier)
        problems = []
        errors = []
        from concurrent.futures import ProcessPoolExecutor
        import os

        jobs = [(str(model.repo), tuple(sorted(model.overlay.items())), cs[i::32]) for i in range(32)]
        with ProcessPoolExecutor(max_workers=int(os.environ.get("VSTAT_WORKERS") or min(16, os.cpu_count() or 4))) as ex:
            for probs, errs in ex.map(_worker, jobs):
                problems.extend(probs)
                errors.extend(errs)
        return {"cases": len(cs), "problems": problems, "errors": sorted(set(errors)),
                "samples": ["".join(w + (c or "") + " " for (_k, w, c, _l) in p).strip() for p in cs[:: max(1, len(cs) // 10)]][:10]}

    return disk_cached(model, f"ahbsweep-{tier}", compute)


def _worker(args):
    from pathlib import Path

    from .report import AnalysisError

    repo, overlay_items, chunk = args
    model = SrcModel(Path(repo), overlay=dict(overlay_items))
    problems, errors = [], []
    for parts4 in chunk:
        try:
            problems.extend(check_case(model, parts4))
        except AnalysisError as err:
            errors.append(f"{type(err).__name__}: {err}")
    return problems, errors


def report(ctx, rules: Tuple[str, ...], file: str) -> None:
    doc = cached_ahb_sweep(ctx.model, ctx.tier)
    if doc["errors"]:
        raise Unsupported(f"AHB sweep cannot decide: {doc['errors'][0]} (+{len(doc['errors']) - 1} more)")
    n = doc["cases"]
    ctx.count(n * 2)
    ctx.units["ahb_sweep_cases"] = n
    by_key: Dict[Tuple[str, str], List[str]] = {}
    for rule, key, msg in doc["problems"]:
        if rule in rules:
            by_key.setdefault((rule, key), []).append(msg)
    for rule in rules:
        bad = {k for (r, k) in by_key if r == rule}
        ctx.obligations += n - len(bad)
        ctx.discharged += n - len(bad)
        ctx.rules_run[rule] = ctx.rules_run.get(rule, 0) + n
        ctx.nontrivial_keys.add(f"{rule}::ahb-sweep")
        ctx.bulk_distinct += max(0, n - 1)
    for (rule, key), msgs in sorted(by_key.items())[:20]:
        ctx.ob(rule, key, False, msgs[0], file=file)
    for s in doc["samples"]:
        ctx.sample({"swept_ahb_expression": s})
