"""Shared machinery of C04-C08: (1) complete per-callback decision tables of RequirementConstraintTransformer over an
abstract node domain (the induction premises, unbounded), (2) a bounded sweep of whole expression trees through the
abstractly interpreted evaluation pipeline, compared with the reference semantics of refsem."""
from __future__ import annotations

import itertools
import os
from concurrent.futures import ProcessPoolExecutor
from functools import lru_cache
from pathlib import Path
from typing import Any, Dict, Iterable, List, Optional, Tuple

from . import refsem
from .evalmodel import Harness, ahb_tree, cond_tree, default_hints
from .fdvalues import EnumVal, Obj, PyRaise, StrT, explore
from .refsem import F, K, N, U
from .report import AnalysisError, Unsupported
from .srcmodel import SrcModel
from .tables import CFV

RCT = "ahbicht.expressions.requirement_constraint_expression_evaluation.RequirementConstraintTransformer"
RC_EVAL_MOD = "ahbicht.expressions.requirement_constraint_expression_evaluation"
NODES = "ahbicht.models.condition_nodes"
INVALID = "ahbicht.expressions.InvalidExpressionError"


# ------------------------------------------------------------------------------------------------ abstract nodes
def abstract_nodes() -> List[Tuple[str, Dict[str, Any]]]:
    """(tag, spec) of the abstract operand domain: leaves and evaluated compositions."""
    out: List[Tuple[str, Dict[str, Any]]] = []
    for st in (F, U, K):
        out.append((f"RC:{st}", {"cls": "RequirementConstraint", "state": st, "key": "1"}))
    out.append(("Hint", {"cls": "Hint", "state": N, "key": "501", "hint": "Hinweis 501"}))
    out.append(("FC", {"cls": "UnevaluatedFormatConstraint", "state": N, "key": "901"}))
    for st in (F, U, K, N):
        for hint in (None, "h"):
            for fce in (None, "[902]"):
                out.append((f"EC:{st}:{'h' if hint else '-'}:{'f' if fce else '-'}",
                            {"cls": "EvaluatedComposition", "state": st, "hint": hint, "fce": fce}))
    return out


def make_node(it, spec: Dict[str, Any]) -> Obj:
    fields: Dict[str, Any] = {"conditions_fulfilled": it.enum(CFV, spec["state"])}
    if spec["cls"] == "EvaluatedComposition":
        fields["hint"] = spec["hint"]
        fields["format_constraints_expression"] = spec["fce"]
    else:
        fields["condition_key"] = spec["key"]
        if spec["cls"] == "Hint":
            fields["hint"] = spec["hint"]
    return Obj(f"{NODES}.{spec['cls']}", fields)


def spec_is_neutral_only(spec) -> bool:
    return spec["state"] == N


def disk_cached(model: SrcModel, name: str, compute):
    """Memoise a JSON-able result under the digest of all analysed sources (+ the checker's own sources)."""
    import json

    cache_dir = Path(__file__).resolve().parent.parent / ".cache"
    path = cache_dir / f"{name}-{source_digest(model)}.json"
    if path.exists() and not os.environ.get("VSTAT_NO_CACHE"):
        try:
            return json.loads(path.read_text())
        except ValueError:
            pass
    val = compute()
    try:
        cache_dir.mkdir(exist_ok=True)
        for old in sorted(cache_dir.glob(f"{name}-*.json"), key=lambda q: q.stat().st_mtime)[:-3]:
            old.unlink()
        tmp = path.with_suffix(f".tmp{os.getpid()}")
        tmp.write_text(json.dumps(val))
        tmp.replace(path)
    except OSError:
        pass
    return val


def callback_table(model: SrcModel, callback: str) -> Dict[Tuple[str, str], Tuple]:
    """(left tag, right tag) -> ('ret', state, class, hint, fce) | ('raise', class). Cached by source digest."""
    model.cls(RCT)
    raw = disk_cached(model, f"cbtable-{callback}", lambda: {f"{k[0]}|{k[1]}": list(v) for k, v in _callback_table(model, callback).items()})
    return {tuple(k.split("|")): tuple(v) for k, v in raw.items()}


def _callback_table(model: SrcModel, callback: str) -> Dict[Tuple[str, str], Tuple]:
    nodes = abstract_nodes()
    table: Dict[Tuple[str, str], Tuple] = {}
    for (lt, ls), (rt, rs) in itertools.product(nodes, repeat=2):
        def run(ch, ls=ls, rs=rs):
            h = Harness(model, ch)
            it = h.it
            tobj = Obj(RCT, {"input_values": {}})
            fv = it.getattr(tobj, callback, None, None)
            try:
                res = it.call(fv, [make_node(it, ls), make_node(it, rs)], {}, None, None)
            except PyRaise as err:
                return ("raise", err.exc.cls)
            if not isinstance(res, Obj):
                return ("value", repr(res))
            st = res.fields.get("conditions_fulfilled")
            return ("ret", st.name if isinstance(st, EnumVal) else repr(st), res.cls.rsplit(".", 1)[-1],
                    res.fields.get("hint"), res.fields.get("format_constraints_expression"))

        outs = {o for _, o in explore(run)}
        if len(outs) != 1:
            raise Unsupported(f"{callback}({lt},{rt}) is not deterministic on the abstract domain: {outs}")
        table[(lt, rt)] = next(iter(outs))
    return table


# ------------------------------------------------------------------------------------------------ tree enumeration
LEAVES_QUICK = ("1", "2", "501", "901", "902")
LEAVES_THOROUGH = ("1", "2", "3", "501", "502", "901", "902")
OPS = ("and", "or", "xor", "then")


def _shapes(n: int):
    if n == 0:
        yield None
        return
    for k in range(n):
        for l in _shapes(k):
            for r in _shapes(n - 1 - k):
                yield (l, r)


def _fill(shape, leaves, ops):
    if shape is None:
        for k in leaves:
            yield ("key", k)
        return
    for op in ops:
        for l in _fill(shape[0], leaves, ops):
            for r in _fill(shape[1], leaves, ops):
                yield (op, l, r)


def _canonical(e) -> bool:
    """Keys of each kind appear in increasing order of first occurrence and without gaps (symmetry reduction)."""
    seen = {"rc": [], "hint": [], "fc": []}
    for k in refsem.keys_of(e):
        kind = refsem.key_kind(k)
        if k not in seen[kind]:
            seen[kind].append(k)
    for kind, base in (("rc", 1), ("hint", 501), ("fc", 901)):
        if [int(k) for k in seen[kind]] != list(range(base, base + len(seen[kind]))):
            return False
    return True


def enumerate_trees(max_internal: int, leaves: Tuple[str, ...]) -> List[Any]:
    out = []
    for n in range(0, max_internal + 1):
        for shape in _shapes(n):
            for e in _fill(shape, leaves, OPS):
                if _canonical(e) and refsem.in_quantifier(e):
                    out.append(e)
    return out


def rc_assignments(e) -> List[Dict[str, str]]:
    keys = sorted({k for k in refsem.keys_of(e) if refsem.key_kind(k) == "rc"}, key=int)
    return [dict(zip(keys, vals)) for vals in itertools.product((F, U, K), repeat=len(keys))]


def fc_assignments(keys: Iterable[str]) -> List[Dict[str, bool]]:
    keys = sorted(set(keys), key=int)
    return [dict(zip(keys, vals)) for vals in itertools.product((True, False), repeat=len(keys))]


# ------------------------------------------------------------------------------------------------ evaluating one tree
def evaluate_tree(model: SrcModel, e, rc: Dict[str, str], fc: Optional[Dict[str, bool]] = None,
                  via: str = "requirement", hints: Optional[Dict[str, Optional[str]]] = None) -> Dict[str, Any]:
    """Abstractly evaluate one expression tree under one assignment. Returns a plain record."""
    keys = refsem.keys_of(e)
    fc_keys = [k for k in keys if refsem.key_kind(k) == "fc"]
    fcv = {k: ((fc or {}).get(k, True), None if (fc or {}).get(k, True) else f"{k} violated") for k in fc_keys}

    def run(ch):
        h = Harness(model, ch, rc=rc, fc=fcv, hints=hints if hints is not None else default_hints(keys))
        try:
            res = h.requirement_evaluation(cond_tree(e))
        except PyRaise as err:
            return {"raise": err.exc.cls}
        if not isinstance(res, Obj):
            return {"value": repr(res)}
        rec = {
            "fulfilled": res.fields.get("requirement_constraints_fulfilled"),
            "conditional": res.fields.get("requirement_is_conditional"),
            "fce": res.fields.get("format_constraints_expression"),
            "hints": res.fields.get("hints"),
        }
        if fc is not None:
            try:
                fres = h.format_evaluation(rec["fce"])
                rec["fc_fulfilled"] = fres.fields.get("format_constraints_fulfilled")
                rec["fc_message"] = fres.fields.get("error_message")
            except PyRaise as err:
                rec["fc_raise"] = err.exc.cls
        return rec

    outs = [o for _, o in explore(run)]
    if len(outs) != 1:
        raise Unsupported(f"evaluation of {refsem.unparse(e)} forks into {len(outs)} paths")
    return outs[0]


def check_tree(model: SrcModel, e) -> List[Tuple[str, str, str]]:
    """All discrepancies between the abstractly interpreted pipeline and the reference for one tree:
    [(rule, key, message)]. Rules: C04.tree, C06.tree, C07.tree, C08.tree."""
    problems: List[Tuple[str, str, str]] = []
    text = refsem.unparse(e)
    is_valid = refsem.valid(e)
    keys = refsem.keys_of(e)
    fc_keys = sorted({k for k in keys if refsem.key_kind(k) == "fc"}, key=int)
    for rc in rc_assignments(e):
        asg = ",".join(f"{k}={v[:3]}" for k, v in rc.items())
        rec = evaluate_tree(model, e, rc)
        if "raise" in rec:
            if rec["raise"] == INVALID:
                if is_valid:
                    problems.append(("C06.tree", text, f"valid expression {text} raises InvalidExpressionError under {asg}"))
            else:
                problems.append(("C04.tree", text, f"{text} under {asg} raises {rec['raise']}"))
            continue
        if not is_valid:
            problems.append(("C06.tree", text, f"invalid expression {text} evaluates without InvalidExpressionError under {asg}"))
            continue
        want = refsem.outcome(refsem.state(e, rc))
        got = (rec.get("fulfilled"), rec.get("conditional"))
        if got != want:
            problems.append(("C04.tree", text, f"{text} under {asg}: outcome (fulfilled, conditional) = {got}, compositional semantics give {want}"))
        fce = rec.get("fce")
        # C07: well-formedness and meaning of the collected format constraint expression
        if fce is not None:
            if not isinstance(fce, str):
                problems.append(("C07.tree", text, f"{text} under {asg}: collected expression is not a literal string: {fce!r}"))
                continue
            try:
                fast = refsem.parse_condition(fce)
            except refsem.RefSyntaxError as err:
                problems.append(("C07.tree", text, f"{text} under {asg}: collected expression {fce!r} is not well-formed ({err})"))
                continue
            fkeys = refsem.keys_of(fast)
            if "then" in repr(fast) or any(k not in fc_keys for k in fkeys):
                problems.append(("C07.tree", text, f"{text} under {asg}: collected expression {fce!r} is not made of the format constraint keys {fc_keys} joined by U/O/X"))
                continue
        if refsem.nested_attachment(e) and text not in NESTED_CHECKED:
            continue  # (the general reading of nested attachments is ambiguous; the listed shapes have an unambiguous one)
        for fcs in fc_assignments(fc_keys):
            want_fc = refsem.fc_reading(e, rc, fcs)
            frec = evaluate_tree(model, e, rc, fcs)
            fasg = ",".join(f"{k}={'T' if v else 'F'}" for k, v in fcs.items())
            if "fc_raise" in frec:
                problems.append(("C07.tree", text, f"{text} under {asg}: format constraint evaluation of {fce!r} raises {frec['fc_raise']}"))
                break
            got_fc = frec.get("fc_fulfilled")
            if got_fc != (True if want_fc is None else want_fc):
                problems.append(("C07.tree", text, f"{text} under {asg} / {fasg}: collected {fce!r} evaluates to {got_fc}, direct reading gives {want_fc}"))
            if fce is not None and isinstance(fce, str):
                bval = refsem.bool_expr_value(refsem.parse_condition(fce), fcs)
                if got_fc != bval:
                    problems.append(("C08.tree", fce, f"format constraint expression {fce!r} under {fasg} evaluates to {got_fc}, Boolean value is {bval}"))
            msg = frec.get("fc_message")
            if (msg is not None) != (got_fc is False):
                problems.append(("C08.tree", str(fce), f"{fce!r} under {fasg}: fulfilled={got_fc} but error message={msg!r} (message iff unfulfilled)"))
    return problems


_MODEL_CACHE: Dict[Tuple[str, int], SrcModel] = {}


def _worker(args):
    repo, overlay_items, trees = args
    key = (repo, hash(overlay_items))
    if key not in _MODEL_CACHE:
        _MODEL_CACHE[key] = SrcModel(Path(repo), overlay=dict(overlay_items))
    model = _MODEL_CACHE[key]
    out = []
    for e in trees:
        try:
            out.append((e, check_tree(model, e), None))
        except AnalysisError as err:
            out.append((e, [], f"{type(err).__name__}: {err}"))
    return out


def sweep(model: SrcModel, trees: List[Any], parallel: bool = True):
    """[(tree, problems, analysis error|None)]"""
    if not parallel or len(trees) < 64:
        return _worker((str(model.repo), tuple(sorted(model.overlay.items())), trees))
    workers = int(os.environ.get("VSTAT_WORKERS") or min(16, os.cpu_count() or 4))
    chunks = [trees[i::workers * 4] for i in range(workers * 4)]
    jobs = [(str(model.repo), tuple(sorted(model.overlay.items())), c) for c in chunks if c]
    out = []
    with ProcessPoolExecutor(max_workers=workers) as ex:
        for part in ex.map(_worker, jobs):
            out.extend(part)
    return out


# ------------------------------------------------------------------------------------------------ cached sweep
def source_digest(model: SrcModel) -> str:
    import hashlib

    h = hashlib.sha256()
    for name in sorted(model.modules):
        h.update(name.encode())
        h.update(model.modules[name].src.encode())
    here = Path(__file__).parent
    for p in sorted(here.glob("*.py")):
        h.update(p.read_bytes())
    return h.hexdigest()[:24]


NESTED_CHECKED = {refsem.unparse(refsem.parse_condition(t_)) for t_ in (
    "[901]([1][902])", "([1][902])[901]", "[901]([1][902]) U [3]", "([1][902] U [3])[901]", "[903]([1][901] O [3][902])")}
EXTRA_TREES = [
    # deeper / wider shapes that no size bound reaches: bracketed groups on both sides, four format keys, zero-padded
    # keys, the same format key in both branches, hints shared between operands, 93x keys, unattached format constraints
    "([1][901] U [902]) O ([3][903] U [904])", "(([1][901] U [3][902]) O ([1][903] U [3][904])) U [905]",
    "[1][905] U (([1][901] U [3][902]) O ([1][903] U [3][904]))", "([1][901] O [3][902]) U [905]",
    "[1][0901]", "[1][0901] O [2][901]", "[01] U [2][902]", "[1][901] X [3][901]", "[1][901] U [3][901]", "[1][901] O [1][901]",
    "([1] U [501]) O ([2] U [501])", "([1] U [501])[901]", "(([1] U [501]) X ([3] U [502]))[901]", "([1] U [501])[901] O [2]",
    "[2] U [901]", "([2] U [901]) O ([1] U [902])", "[101] U [1][901]", "[101] U [501][901]", "[1][932] O [2][933]", "[501] U [931]",
    "[1] U [2] U [3] U [4]", "[1] O ([2] X ([3] U [4]))", "(([1] U [2]) O [3]) X [4]", "[1][901] U [2][902] U [3][903]",
    "[2000] U [2499][901]", "[499] O [1]", "[1] U [900] U [500]", "[999][1] X [2]",
    # a format constraint attached to an operand that carries its own attached constraint (nested attachments, both orders)
    "[901]([1][902])", "([1][902])[901]", "[901]([1][902]) U [3]", "([1][902] U [3])[901]", "[903]([1][901] O [3][902])",
]


def cached_sweep(model: SrcModel, tier: str):
    """Problems of the whole-tree sweep for this source digest: (n_trees, n_evaluations, [(rule, key, msg)], errors)."""
    import json

    bound, leaves = (2, LEAVES_QUICK) if tier == "quick" else (3, LEAVES_QUICK)
    if tier == "thorough":
        trees = enumerate_trees(2, LEAVES_THOROUGH)
        seen = set(trees)
        trees += [t for t in enumerate_trees(3, ("1", "2", "501", "901")) if t not in seen]
    else:
        trees = enumerate_trees(bound, leaves)
    seen_ = set(trees)
    for text in EXTRA_TREES:
        e = refsem.parse_condition(text)
        if refsem.in_quantifier(e) and e not in seen_:
            trees.append(e)
    def compute():
        res = sweep(model, trees)
        problems = [list(p) for _, ps, _ in res for p in ps]
        errors = sorted({err for _, _, err in res if err})
        evaluations = sum(len(rc_assignments(e)) * (1 + 2 ** len({k for k in refsem.keys_of(e) if refsem.key_kind(k) == "fc"})) for e in trees)
        samples = [refsem.unparse(e) for e in trees[:: max(1, len(trees) // 12)]][:12]
        return {"trees": len(trees), "evaluations": evaluations, "problems": problems, "errors": errors, "samples": samples}

    doc = disk_cached(model, f"rcsweep-{tier}", compute)
    return doc["trees"], doc["evaluations"], [tuple(p) for p in doc["problems"]], doc["errors"], doc["samples"]


def report_sweep(ctx, rule_prefixes: Tuple[str, ...], file: str) -> None:
    """Turn the sweep's discrepancies for the given rule ids into obligations of ctx."""
    n_trees, n_eval, problems, errors, samples = cached_sweep(ctx.model, ctx.tier)
    if errors:
        raise Unsupported(f"whole-tree sweep cannot decide: {errors[0]} (+{len(errors) - 1} more)")
    ctx.count(n_eval)
    ctx.units["sweep_trees"] = n_trees
    ctx.units["sweep_evaluations"] = n_eval
    mine = [p for p in problems if p[0] in rule_prefixes]
    by_key: Dict[Tuple[str, str], List[str]] = {}
    for rule, key, msg in mine:
        by_key.setdefault((rule, key), []).append(msg)
    for rule in rule_prefixes:
        bad = {k for (r, k) in by_key if r == rule}
        # one obligation per rule and swept tree; the passing ones are counted in bulk
        ctx.obligations += n_trees - len(bad)
        ctx.discharged += n_trees - len(bad)
        ctx.rules_run[rule] = ctx.rules_run.get(rule, 0) + n_trees
        ctx.nontrivial_keys.add(f"{rule}::sweep")
        ctx.bulk_distinct += max(0, n_trees - 1)
    for (rule, key), msgs in sorted(by_key.items())[:25]:
        ctx.ob(rule, key, False, msgs[0] + (f" (+{len(msgs) - 1} more assignments)" if len(msgs) > 1 else ""), file=file)
    for s in samples:
        ctx.sample({"swept_expression": s})
