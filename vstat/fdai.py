"""Engine D: finite-domain abstract interpreter over the repository's ASTs (decision-table extraction).

Nothing of the repository is imported or executed: the interpreter walks `ast` nodes of functions found by the source
model, on abstract inputs supplied by a rule (enum members, abstract objects, opaque values, string templates ...).
Branches on opaque values fork the path (stateless depth-first re-execution, see fdvalues.explore).
Constructs outside the supported subset raise `Unsupported` (exit 2) - never a guess.
"""
from __future__ import annotations

import ast
import builtins
from typing import Any, Callable, Dict, List, Optional, Tuple

from .fdcalls import CallMixin
from .fdvalues import (is_one_shot, one_shot, BoundExt, Chooser, ClassVal, CoroVal, EnumVal, ExtVal, FuncVal, GatherVal, Obj, Opaque,
                       PathAbort, PyRaise, StrT, strt_concat)
from .report import Unsupported
from .srcmodel import ClassDef, FuncDef, Module, SrcModel, assigned_expr, norm, walk_shallow

LARK_EXC = {
    "lark.exceptions.LarkError": ["builtins.Exception"],
    "lark.exceptions.VisitError": ["lark.exceptions.LarkError"],
    "lark.exceptions.UnexpectedInput": ["lark.exceptions.LarkError"],
    "lark.exceptions.UnexpectedCharacters": ["lark.exceptions.UnexpectedInput", "lark.exceptions.LexError"],
    "lark.exceptions.UnexpectedEOF": ["lark.exceptions.ParseError", "lark.exceptions.UnexpectedInput"],
    "lark.exceptions.UnexpectedToken": ["lark.exceptions.ParseError", "lark.exceptions.UnexpectedInput"],
    "lark.exceptions.ParseError": ["lark.exceptions.LarkError"],
    "lark.exceptions.LexError": ["lark.exceptions.LarkError"],
    "marshmallow.exceptions.ValidationError": ["builtins.ValueError"],
    "inject.InjectorException": ["builtins.Exception"],
}


class _Return(Exception):
    def __init__(self, value):
        super().__init__()
        self.value = value


class _Break(Exception):
    pass


class _Continue(Exception):
    pass


class Frame:
    def __init__(self, fn: Optional[FuncDef], module: Module, parent: Optional["Frame"], local_names: set):
        self.fn = fn
        self.module = module
        self.parent = parent
        self.vars: Dict[str, Any] = {}
        self.local_names = local_names
        self.cur_exc: Optional[Obj] = None
        self.global_names: set = set()
        self.nonlocal_names: set = set()


def assigned_names(node: ast.AST) -> set:
    out = set()
    for n in walk_shallow(node):
        if isinstance(n, ast.Name) and isinstance(n.ctx, (ast.Store, ast.Del)):
            out.add(n.id)
        elif isinstance(n, ast.ExceptHandler) and n.name:
            out.add(n.name)
        elif isinstance(n, (ast.FunctionDef, ast.AsyncFunctionDef, ast.ClassDef)):
            out.add(n.name)
        elif isinstance(n, (ast.Import, ast.ImportFrom)):
            for a in n.names:
                out.add((a.asname or a.name).split(".")[0])
    # comprehension targets are not function locals in py3 but our shallow walk sees them; harmless (always bound
    # before use inside the comprehension, which gets its own frame)
    return out


class Interp(CallMixin):
    def __init__(self, model: SrcModel, chooser: Optional[Chooser] = None, *,
                 summaries: Optional[Dict[str, Callable]] = None,
                 ext_handlers: Optional[Dict[str, Callable]] = None,
                 opaque_calls: bool = False, max_steps: int = 5000000):
        self.model = model
        self.ch = chooser or Chooser([])
        self.summaries = summaries or {}
        self.ext_handlers = ext_handlers or {}
        self.opaque_calls = opaque_calls
        self.steps = 0
        self.max_steps = max_steps
        self.modvals: Dict[Tuple[str, str], Any] = {}
        self.effects: List[Tuple[str, Any]] = []  # observable effects recorded by handlers (e.g. ContextVar.set)
        self.noeffect_stmts: List[ast.stmt] = []  # expression statements without any effect that were executed
        self.attr_memo: Dict[Tuple[int, str], Any] = {}
        self.call_depth = 0
        self.ext_bases: Dict[str, List[str]] = {}  # ancestry of external classes (supplied by rules)
        self.ctxvars: List[Obj] = []  # contextvars.ContextVar objects created so far
        self.ctx_cells: List[Tuple[dict, str]] = []  # (container, key) cells a rule declares context-local (set by a ContextVar-backed setter)
        self.call_observers: Dict[str, Callable] = {}  # qualname -> observer(args, kwargs) invoked when that repo function starts

    # ------------------------------------------------------------------ helpers for rules
    def enum(self, cls_qualname: str, name: str) -> EnumVal:
        cls = self.model.cls(cls_qualname)
        members = self.members(cls)
        if name not in members:
            raise Unsupported(f"{cls_qualname} has no member {name}")
        return EnumVal(cls_qualname, name, members[name])

    def members(self, cls: ClassDef) -> Dict[str, Any]:
        """name -> value of an Enum's members in definition order; values that are not plain literals (tuples holding
        classes, calls ...) are evaluated in the class body's scope."""
        key = (cls.qualname, "enum-members")
        if key in self.attr_memo:
            return self.attr_memo[key]
        literal = self.model.enum_members_literal(cls)
        out: Dict[str, Any] = {}
        for st in cls.node.body:
            if isinstance(st, ast.Assign) and len(st.targets) == 1 and isinstance(st.targets[0], ast.Name):
                name = st.targets[0].id
                if name.startswith("_"):
                    continue
                if name in literal:
                    out[name] = literal[name]
                elif not isinstance(st.value, ast.Lambda):
                    val = self.eval(st.value, Frame(None, cls.module, None, set()))
                    if isinstance(val, (FuncVal, Obj)) and not isinstance(val, Obj):
                        continue  # descriptors / functions are not members
                    out[name] = val
        self.attr_memo[key] = out
        return out

    def enum_all(self, cls_qualname: str) -> List[EnumVal]:
        cls = self.model.cls(cls_qualname)
        return [EnumVal(cls_qualname, n, v) for n, v in self.members(cls).items()]

    def funcval(self, qualname: str, self_obj: Any = None) -> FuncVal:
        fn = self.model.func(qualname)
        return FuncVal(fn=fn, self_obj=self_obj, module=fn.module)

    def exc(self, cls: str, *args: Any) -> Obj:
        return Obj(cls, {"args": tuple(args)})

    def raise_(self, cls: str, *args: Any):
        raise PyRaise(self.exc(f"builtins.{cls}" if "." not in cls else cls, *args))

    def tick(self, node: ast.AST) -> None:
        self.steps += 1
        if self.steps > self.max_steps:
            raise Unsupported(f"step budget exhausted at line {getattr(node, 'lineno', '?')}")

    def unsupported(self, node: ast.AST, frame: Optional[Frame], why: str = ""):
        where = f"{frame.module.relpath}:{getattr(node, 'lineno', '?')}" if frame else "?"
        raise Unsupported(f"{type(node).__name__} {why} at {where}: {norm(node, 100)}")

    # ------------------------------------------------------------------ class hierarchy
    def class_mro(self, name: str) -> List[str]:
        if name in self.model.classes:
            out = self.model.mro(name)
        else:
            out = [name]
        # extend external / builtin ancestry
        res: List[str] = []
        work = list(out)
        while work:
            n = work.pop(0)
            if n in res:
                continue
            res.append(n)
            if n in LARK_EXC:
                work.extend(LARK_EXC[n])
            elif n == "lark.Token":
                work.append("builtins.str")  # lark tokens are strings
            elif n in ("attrs.exceptions.FrozenInstanceError", "attr.exceptions.FrozenInstanceError", "dataclasses.FrozenInstanceError"):
                work.append("builtins.AttributeError")
            elif n in self.ext_bases:
                work.extend(self.ext_bases[n])
            elif n.startswith("builtins.") and hasattr(builtins, n[9:]) and isinstance(getattr(builtins, n[9:]), type):
                for b in getattr(builtins, n[9:]).__mro__[1:]:
                    work.append(f"builtins.{b.__name__}")
        return res

    def is_frozen(self, cls_name: str) -> bool:
        """attrs / dataclass classes declared frozen: attribute assignment raises FrozenInstanceError (an AttributeError)."""
        for cn in self.model.mro(cls_name):
            c = self.model.classes.get(cn)
            if c is None:
                continue
            for d in c.node.decorator_list:
                text = norm(d, 300)
                if ("frozen=True" in text and ("define" in text or "attr" in text or "dataclass" in text)) or text.split("(")[0].split(".")[-1] == "frozen":
                    return True
        return False

    def is_subclass(self, name: str, base: str) -> bool:
        return base in self.class_mro(name)

    def class_of(self, v: Any) -> Optional[str]:
        if isinstance(v, Obj):
            return v.cls
        if isinstance(v, EnumVal):
            return v.cls
        if isinstance(v, Opaque):
            return v.kind
        if isinstance(v, bool):
            return "builtins.bool"
        if isinstance(v, int):
            return "builtins.int"
        if isinstance(v, (str, StrT)):
            return "builtins.str"
        if v is None:
            return "builtins.NoneType"
        if isinstance(v, list):
            return "builtins.list"
        if isinstance(v, dict):
            return "builtins.dict"
        if isinstance(v, tuple):
            return "builtins.tuple"
        if isinstance(v, set):
            return "builtins.set"
        if isinstance(v, CoroVal):
            return "types.CoroutineType"
        return None

    # ------------------------------------------------------------------ truthiness / equality
    def truth(self, v: Any, node: Optional[ast.AST] = None) -> bool:
        if v is None or isinstance(v, (bool, int, float, str, list, dict, tuple, set, frozenset)):
            return bool(v)
        if isinstance(v, EnumVal):
            if self.is_subclass(v.cls, "builtins.str") or self.is_subclass(v.cls, "builtins.int"):
                return bool(v.value)
            return True
        if isinstance(v, StrT):
            if v.literal_text() or any(isinstance(p_, Opaque) and p_.truthy for p_ in v.parts):
                return True
            return self.fork(("truth", repr(v)), f"truth({v!r})")
        if isinstance(v, Opaque):
            if v.truthy is not None:
                return v.truthy
            return self.fork(("truth", v.oid), f"truth({v.label})")
        if isinstance(v, Obj) and v.cls in self.model.classes:
            cls_ = self.model.classes[v.cls]
            for dunder in ("__bool__", "__len__"):
                m = self.model.find_method(cls_, dunder)
                if m is not None:
                    r = self.call(FuncVal(fn=m, self_obj=v, module=m.module), [], {}, node, None)
                    return self.truth(r, node)
            if "typing.NamedTuple" in self.model.mro(v.cls):
                return bool(self.model.attrs_fields(cls_))
        if isinstance(v, (Obj, FuncVal, ClassVal, ExtVal, CoroVal, BoundExt)):
            return True
        raise Unsupported(f"truthiness of {v!r}")

    def fork(self, key: Any, label: str) -> bool:
        return self.ch.choose(label, 2, memo_key=key) == 0

    def is_attrs(self, cls_name: str) -> bool:
        c = self.model.classes.get(cls_name)
        if c is None:
            return False
        for cn in self.model.mro(cls_name):
            cc = self.model.classes.get(cn)
            if cc is not None and any("attrs.define" in d or d.endswith("attr.s") or "dataclass" in d
                                      for d in [norm(x) for x in cc.node.decorator_list]):
                return True
        return False

    def eq(self, a: Any, b: Any) -> bool:
        if isinstance(a, Opaque) or isinstance(b, Opaque):
            if a is b:
                return True
            o, other = (a, b) if isinstance(a, Opaque) else (b, a)
            if other is None and o.not_none:
                return False
            return self.fork(("eq", o.oid, repr(other)), f"{o.label}=={other!r}")
        if isinstance(a, StrT) or isinstance(b, StrT):
            if isinstance(a, StrT) and isinstance(b, StrT) and a == b:
                return True
            if a is None or b is None:
                return False
            return self.fork(("eq", repr(a), repr(b)), f"{a!r}=={b!r}")
        if isinstance(a, EnumVal) and isinstance(b, EnumVal):
            if a.cls == b.cls:
                return a.name == b.name
            if self.is_subclass(a.cls, "builtins.str") and self.is_subclass(b.cls, "builtins.str"):
                return a.value == b.value
            return False
        if isinstance(a, EnumVal) or isinstance(b, EnumVal):
            e, other = (a, b) if isinstance(a, EnumVal) else (b, a)
            if isinstance(other, str) and self.is_subclass(e.cls, "builtins.str"):
                return e.value == other
            if isinstance(other, int) and not isinstance(other, bool) and self.is_subclass(e.cls, "builtins.int"):
                return e.value == other
            return False
        if isinstance(a, Obj) and a.cls in self.model.classes:
            m = self.model.find_method(self.model.classes[a.cls], "__eq__")
            if m is not None:
                return self.truth(self.call(FuncVal(fn=m, self_obj=a, module=m.module), [b], {}, None, None))
        if isinstance(b, Obj) and b.cls in self.model.classes and not isinstance(a, Obj):
            m = self.model.find_method(self.model.classes[b.cls], "__eq__")
            if m is not None:
                return self.truth(self.call(FuncVal(fn=m, self_obj=b, module=m.module), [a], {}, None, None))
        if isinstance(a, Obj) and isinstance(b, Obj):
            if a is b:
                return True
            if a.cls == b.cls and (self.is_attrs(a.cls) or (a.cls in self.model.classes and "typing.NamedTuple" in self.model.mro(a.cls))):
                return set(a.fields) == set(b.fields) and all(self.eq(a.fields[k], b.fields[k]) for k in a.fields)
            if a.cls == b.cls and a.cls in ("lark.Tree", "lark.Token"):
                keys = ("data", "children") if a.cls == "lark.Tree" else ("type", "value")
                return all(self.eq(a.fields.get(k), b.fields.get(k)) for k in keys)
            return False
        if isinstance(a, Obj) or isinstance(b, Obj):
            o, other = (a, b) if isinstance(a, Obj) else (b, a)
            if o.cls == "lark.Token" and isinstance(other, str):
                return self.eq(o.fields.get("value"), other)
            return False
        if isinstance(a, (list, tuple)) and isinstance(b, (list, tuple)):
            if type(a) is not type(b) or len(a) != len(b):
                return False
            return all(self.eq(x, y) for x, y in zip(a, b))
        if isinstance(a, dict) and isinstance(b, dict):
            return set(a) == set(b) and all(self.eq(a[k], b[k]) for k in a)
        if isinstance(a, (CoroVal, FuncVal)) or isinstance(b, (CoroVal, FuncVal)):
            return a is b
        try:
            return bool(a == b)
        except Exception as err:  # pylint:disable=broad-except
            raise Unsupported(f"== on {a!r}, {b!r}: {err}") from err

    def identical(self, a: Any, b: Any) -> bool:
        if isinstance(a, EnumVal) and isinstance(b, EnumVal):
            return a.cls == b.cls and a.name == b.name
        if a is None or b is None or isinstance(a, bool) or isinstance(b, bool):
            if isinstance(a, Opaque) or isinstance(b, Opaque):
                return self.eq(a, b)
            return a is b
        if isinstance(a, Opaque) or isinstance(b, Opaque):
            if a is b:
                return True
            return self.eq(a, b)
        if isinstance(a, (str, int)) and isinstance(b, (str, int)):
            return type(a) is type(b) and a == b  # interning not modelled: treated like equality of same type
        return a is b

    # ------------------------------------------------------------------ names
    def lookup(self, name: str, frame: Frame, node: ast.AST) -> Any:
        f: Optional[Frame] = frame
        first = True
        while f is not None:
            if name in f.vars:
                return f.vars[name]
            if name in f.local_names:
                if first:
                    raise PyRaise(self.exc("builtins.UnboundLocalError", f"local variable '{name}' referenced before assignment"))
                raise PyRaise(self.exc("builtins.NameError", f"free variable '{name}' referenced before assignment"))
            first = False
            f = f.parent
        return self.module_value(frame.module, name, node)

    def module_value(self, mod: Module, name: str, node: Optional[ast.AST] = None) -> Any:
        key = (mod.name, name)
        if key in self.modvals:
            return self.modvals[key]
        res = self.model.resolve_name(mod, name)
        val: Any
        if isinstance(res, FuncDef):
            val = FuncVal(fn=res, module=res.module)
        elif isinstance(res, ClassDef):
            val = ClassVal(res.qualname)
        elif isinstance(res, Module):
            val = ExtVal("module:" + res.name)
        elif isinstance(res, str):
            val = self.ext_value(res[4:])
        elif isinstance(res, tuple) and res[0] == "modvar":
            _, m, n = res
            sts = m.assigns.get(n, [])
            expr = assigned_expr(sts[0], n) if len(sts) == 1 else None  # (a `global` rebinding inside a function is interpreted, see exec)
            if expr is None:
                raise Unsupported(f"module variable {m.name}.{n} is not bound exactly once at module level")
            key = (m.name, n)
            if key in self.modvals:
                return self.modvals[key]
            mframe = Frame(None, m, None, set())
            try:
                val = self.eval(expr, mframe)
            except PyRaise as err:
                raise Unsupported(f"module constant {m.name}.{n} raises {err.exc!r}") from err
            self.modvals[key] = val
        elif hasattr(builtins, name):
            val = self.ext_value(f"builtins.{name}")
        else:
            raise Unsupported(f"name {name} cannot be resolved in {mod.name}")
        self.modvals[(mod.name, name)] = val
        return val

    def ext_value(self, dotted_name: str) -> Any:
        if dotted_name in ("builtins.True", "builtins.False", "builtins.None"):
            return {"True": True, "False": False, "None": None}[dotted_name[9:]]
        if dotted_name == "ahbicht.StrEnum":
            return ClassVal("enum.StrEnum")
        head = dotted_name.split(".")[-1]
        if dotted_name.startswith("builtins.") and isinstance(getattr(builtins, head, None), type) \
                and issubclass(getattr(builtins, head), BaseException):
            return ClassVal(dotted_name)
        if dotted_name in ("lark.Tree", "lark.Token", "lark.tree.Tree", "lark.lexer.Token"):
            return ClassVal("lark." + head)
        if dotted_name.startswith("lark.exceptions."):
            return ClassVal(dotted_name)
        if dotted_name in ("builtins.str", "builtins.int", "builtins.bool", "builtins.list", "builtins.dict",
                           "builtins.tuple", "builtins.set", "builtins.float", "builtins.object", "builtins.type"):
            return ClassVal(dotted_name)
        if dotted_name.startswith("re.") and dotted_name.count(".") == 1:
            import re as _re

            if isinstance(getattr(_re, head, None), _re.RegexFlag):
                return int(getattr(_re, head))  # re.IGNORECASE ...: plain bit masks
        if head[:1].isupper() and not head.isupper() and not dotted_name.startswith("typing."):
            return ClassVal(dotted_name)  # an external class (maus model classes, ContextVar, ...)
        return ExtVal(dotted_name)

    # ------------------------------------------------------------------ statements
    def exec_block(self, body: List[ast.stmt], frame: Frame) -> None:
        for st in body:
            self.exec(st, frame)

    def exec(self, st: ast.stmt, frame: Frame) -> None:  # pylint:disable=too-many-branches,too-many-statements
        self.tick(st)
        if isinstance(st, ast.Expr) and isinstance(st.value, (ast.Yield, ast.YieldFrom)):
            f_ = frame
            while f_ is not None and not hasattr(f_, "yields"):
                f_ = f_.parent
            if f_ is None:
                self.unsupported(st, frame, "yield outside a generator frame")
            if isinstance(st.value, ast.Yield) and getattr(f_, "yield_hook", None) is not None:
                # the body of a @contextmanager function: the with-block runs where the generator is suspended
                f_.yield_hook(self.eval(st.value.value, frame) if st.value.value is not None else None)
            elif isinstance(st.value, ast.Yield):
                f_.yields.append(self.eval(st.value.value, frame) if st.value.value is not None else None)
            else:
                f_.yields.extend(self.iterate(self.eval(st.value.value, frame), st, frame))
            return
        if isinstance(st, ast.Expr):
            if isinstance(st.value, ast.Constant):
                return  # docstring
            self.eval(st.value, frame)
            if not any(isinstance(n, (ast.Call, ast.Await, ast.Yield, ast.YieldFrom, ast.NamedExpr))
                       for n in ast.walk(st.value)):
                self.noeffect_stmts.append(st)
            return
        if isinstance(st, ast.Assign):
            val = self.eval(st.value, frame)
            for t in st.targets:
                self.assign(t, val, frame)
            return
        if isinstance(st, ast.AnnAssign):
            if st.value is not None:
                self.assign(st.target, self.eval(st.value, frame), frame)
            return
        if isinstance(st, ast.AugAssign):
            load = ast.copy_location(self._as_load(st.target), st)
            cur = self.eval(load, frame)
            rhs = self.eval(st.value, frame)
            inplace = {ast.Add: "__iadd__", ast.Sub: "__isub__", ast.BitOr: "__ior__", ast.BitAnd: "__iand__", ast.BitXor: "__ixor__", ast.Mult: "__imul__"}.get(type(st.op))
            val: Any = KeyError
            if isinstance(cur, (Obj, EnumVal)) and cur.cls in self.model.classes and inplace:
                m_ = self.model.find_method(self.model.classes[cur.cls], inplace)
                if m_ is not None:  # the in-place dunder wins over __add__ ...
                    val = self.call(FuncVal(fn=m_, self_obj=cur, module=m_.module), [rhs], {}, st, frame)
            elif isinstance(cur, list) and isinstance(st.op, ast.Add):
                cur.extend(self.iterate(rhs, st, frame))  # list += iterable mutates the list object (aliases see it)
                val = cur
            elif isinstance(cur, dict) and isinstance(st.op, ast.BitOr) and isinstance(rhs, dict):
                cur.update(rhs)
                val = cur
            elif isinstance(cur, set) and isinstance(rhs, (set, frozenset)) and isinstance(st.op, (ast.BitOr, ast.BitAnd, ast.Sub, ast.BitXor)):
                {ast.BitOr: cur.update, ast.BitAnd: cur.intersection_update, ast.Sub: cur.difference_update, ast.BitXor: cur.symmetric_difference_update}[type(st.op)](rhs)
                val = cur
            if val is KeyError:
                val = self.binop(st.op, cur, rhs, st, frame)
            self.assign(st.target, val, frame)
            return
        if isinstance(st, ast.Return):
            raise _Return(self.eval(st.value, frame) if st.value is not None else None)
        if isinstance(st, ast.If):
            if self.truth(self.eval(st.test, frame), st.test):
                self.exec_block(st.body, frame)
            else:
                self.exec_block(st.orelse, frame)
            return
        if isinstance(st, (ast.For, ast.AsyncFor)):
            iterable = self.eval(st.iter, frame)
            if is_one_shot(iterable):
                def pull(it_=iterable):  # one element at a time: a `break` leaves the rest in the iterator
                    while it_.fields["pos"] < len(it_.fields["items"]):
                        it_.fields["pos"] += 1
                        yield it_.fields["items"][it_.fields["pos"] - 1]

                items = pull()
            else:
                items = self.iterate(iterable, st.iter, frame)
            broke = False
            for item in items:
                self.assign(st.target, item, frame)
                try:
                    self.exec_block(st.body, frame)
                except _Break:
                    broke = True
                    break
                except _Continue:
                    continue
            if not broke:
                self.exec_block(st.orelse, frame)
            return
        if isinstance(st, ast.While):
            n = 0
            while self.truth(self.eval(st.test, frame), st.test):
                n += 1
                if n > 20000:
                    raise Unsupported("while loop beyond 20000 iterations")
                try:
                    self.exec_block(st.body, frame)
                except _Break:
                    break
                except _Continue:
                    continue
            else:
                self.exec_block(st.orelse, frame)
            return
        if isinstance(st, ast.Raise):
            if st.exc is None:
                if frame.cur_exc is None:
                    self.raise_("RuntimeError", "No active exception to reraise")
                raise PyRaise(frame.cur_exc)
            exc = self.eval(st.exc, frame)
            if isinstance(exc, ClassVal):
                exc = self.call(exc, [], {}, st, frame)
            if isinstance(exc, Opaque):
                exc = Obj(exc.kind or "builtins.BaseException", {"args": (), "opaque": exc})
            if not isinstance(exc, Obj):
                self.unsupported(st, frame, f"raise of {exc!r}")
            raise PyRaise(exc)
        if isinstance(st, ast.Try):
            self.exec_try(st, frame)
            return
        if isinstance(st, ast.Assert):
            before = len(self.ch.trace)
            if not self.truth(self.eval(st.test, frame), st.test):
                if len(self.ch.trace) == before:
                    self.raise_("AssertionError", "")  # the condition is definitely false on this path
                raise PathAbort()  # a condition on unknown values: an assumption of the analysed code
            return
        if isinstance(st, ast.Pass):
            return
        if isinstance(st, ast.Break):
            raise _Break()
        if isinstance(st, ast.Continue):
            raise _Continue()
        if isinstance(st, (ast.FunctionDef, ast.AsyncFunctionDef)):
            sub = (frame.fn.nested_nodes.get(id(st)) or frame.fn.nested.get(st.name)) if frame.fn is not None else None
            if sub is None:
                self.unsupported(st, frame, "nested function not indexed")
            frame.vars[st.name] = FuncVal(fn=sub, env=frame, module=frame.module, defaults=self.eval_defaults(st.args, frame))
            return
        if isinstance(st, (ast.Import, ast.ImportFrom)):
            for a in st.names:
                local = (a.asname or a.name).split(".")[0]
                if isinstance(st, ast.ImportFrom):
                    target = f"{st.module}.{a.name}"
                    res = None
                    if st.module in self.model.modules:
                        res = self.model.resolve_name(self.model.modules[st.module], a.name)
                    if isinstance(res, FuncDef):
                        frame.vars[local] = FuncVal(fn=res, module=res.module)
                    elif isinstance(res, ClassDef):
                        frame.vars[local] = ClassVal(res.qualname)
                    else:
                        frame.vars[local] = self.ext_value(target)
                else:
                    frame.vars[local] = self.ext_value(a.name)
            return
        if isinstance(st, ast.With):
            self.exec_with(st, 0, frame)
            return
        if isinstance(st, ast.Match):
            subject = self.eval(st.subject, frame)
            for case in st.cases:
                if self.match_pattern(case.pattern, subject, frame) and (case.guard is None or self.truth(self.eval(case.guard, frame))):
                    self.exec_block(case.body, frame)
                    return
            return
        if isinstance(st, ast.Global):
            frame.global_names.update(st.names)
            frame.local_names = set(frame.local_names) - set(st.names)
            return
        if isinstance(st, ast.Nonlocal):
            frame.nonlocal_names.update(st.names)
            frame.local_names = set(frame.local_names) - set(st.names)
            return
        if isinstance(st, ast.Delete):
            for t in st.targets:
                if isinstance(t, ast.Name):
                    frame.vars.pop(t.id, None)
                elif isinstance(t, ast.Subscript):
                    cont = self.eval(t.value, frame)
                    idx = self.eval(t.slice, frame)
                    del cont[idx]
                else:
                    self.unsupported(st, frame)
            return
        self.unsupported(st, frame)

    def exec_with(self, st: ast.With, i: int, frame: Frame) -> None:
        if i == len(st.items):
            self.exec_block(st.body, frame)
            return
        item = st.items[i]
        mgr = self.eval(item.context_expr, frame)
        cls = self.model.classes.get(mgr.cls) if isinstance(mgr, Obj) else None
        enter = self.model.find_method(cls, "__enter__") if cls is not None else None
        exit_ = self.model.find_method(cls, "__exit__") if cls is not None else None
        if enter is None and exit_ is not None and cls is not None and any("AbstractContextManager" in b or "ContextDecorator" in b for b in self.model.mro(cls.qualname)):
            pass  # __enter__ inherited from contextlib.AbstractContextManager returns the manager itself
        elif enter is None or exit_ is None:
            if isinstance(mgr, Obj) and mgr.cls == "contextlib.cm":
                state: Dict[str, Any] = {"entered": False, "ctrl": None}

                def hook(value: Any) -> None:
                    if state["entered"]:
                        self.raise_("RuntimeError", "generator didn't stop")
                    state["entered"] = True
                    if item.optional_vars is not None:
                        self.assign(item.optional_vars, value, frame)
                    try:
                        self.exec_with(st, i + 1, frame)
                    except (_Return, _Break, _Continue) as ctrl:  # leaving the block is a normal exit for the manager
                        state["ctrl"] = ctrl

                self.pending_yield_hook = hook
                try:
                    self.call(mgr.fields["fn"], list(mgr.fields["args"]), dict(mgr.fields["kwargs"]), st, frame)
                finally:
                    self.pending_yield_hook = None
                if not state["entered"]:
                    self.raise_("RuntimeError", "generator didn't yield")
                if state["ctrl"] is not None:
                    raise state["ctrl"]
                return
            if isinstance(mgr, Obj) and mgr.cls == "contextlib.nullcontext":
                if item.optional_vars is not None:
                    self.assign(item.optional_vars, mgr.fields.get("value"), frame)
                self.exec_with(st, i + 1, frame)
                return
            if isinstance(mgr, Obj) and mgr.cls == "contextlib.suppress":
                try:
                    self.exec_with(st, i + 1, frame)
                except PyRaise as err:
                    if not any(isinstance(c, ClassVal) and self.is_subclass(err.exc.cls, c.name) for c in mgr.fields["classes"]):
                        raise
                return
            # an external context manager (open(), locks ...): entered value is opaque, exceptions pass through
            if item.optional_vars is not None:
                self.assign(item.optional_vars, mgr if isinstance(mgr, Opaque) else Opaque("with"), frame)
            self.exec_with(st, i + 1, frame)
            return
        entered = self.call(FuncVal(fn=enter, self_obj=mgr, module=enter.module), [], {}, st, frame) if enter is not None else mgr
        if item.optional_vars is not None:
            self.assign(item.optional_vars, entered, frame)
        try:
            self.exec_with(st, i + 1, frame)
        except PyRaise as err:
            saved = frame.cur_exc
            suppress = self.call(FuncVal(fn=exit_, self_obj=mgr, module=exit_.module), [ClassVal(err.exc.cls), err.exc, Opaque("traceback")], {}, st, frame)
            frame.cur_exc = saved
            if not self.truth(suppress):
                raise
            return
        except (_Return, _Break, _Continue):
            self.call(FuncVal(fn=exit_, self_obj=mgr, module=exit_.module), [None, None, None], {}, st, frame)
            raise
        self.call(FuncVal(fn=exit_, self_obj=mgr, module=exit_.module), [None, None, None], {}, st, frame)

    def match_pattern(self, pat: ast.pattern, subject: Any, frame: Frame) -> bool:
        if isinstance(pat, ast.MatchValue):
            return self.eq(subject, self.eval(pat.value, frame))
        if isinstance(pat, ast.MatchSingleton):
            return self.identical(subject, pat.value)
        if isinstance(pat, ast.MatchOr):
            return any(self.match_pattern(p, subject, frame) for p in pat.patterns)
        if isinstance(pat, ast.MatchAs):
            if pat.pattern is not None and not self.match_pattern(pat.pattern, subject, frame):
                return False
            if pat.name is not None:
                frame.vars[pat.name] = subject
            return True
        if isinstance(pat, ast.MatchClass):
            cls = self.eval(pat.cls, frame)
            if not self.isinstance_(subject, cls, pat, frame):
                return False
            if pat.patterns:
                raise Unsupported("positional sub-patterns in a class pattern")
            for name, sub in zip(pat.kwd_attrs, pat.kwd_patterns):
                try:
                    val = self.getattr(subject, name, pat, frame)
                except PyRaise:
                    return False
                if not self.match_pattern(sub, val, frame):
                    return False
            return True
        if isinstance(pat, ast.MatchSequence):
            if not isinstance(subject, (list, tuple)) or any(isinstance(p, ast.MatchStar) for p in pat.patterns) or len(subject) != len(pat.patterns):
                if isinstance(subject, (list, tuple)) and any(isinstance(p, ast.MatchStar) for p in pat.patterns):
                    raise Unsupported("star pattern")
                return False
            return all(self.match_pattern(p, v, frame) for p, v in zip(pat.patterns, subject))
        if isinstance(pat, ast.MatchMapping):
            if not isinstance(subject, dict):
                return False
            used = []
            for k_expr, sub in zip(pat.keys, pat.patterns):
                k = self.eval(k_expr, frame)
                hit = [kk for kk in subject if self.eq(kk, k)]
                if not hit or not self.match_pattern(sub, subject[hit[0]], frame):
                    return False
                used.append(hit[0])
            if pat.rest is not None:
                frame.vars[pat.rest] = {kk: vv for kk, vv in subject.items() if kk not in used}
            return True
        raise Unsupported(f"match pattern {type(pat).__name__}")

    @staticmethod
    def _as_load(target: ast.expr) -> ast.expr:
        if isinstance(target, ast.Name):
            return ast.Name(id=target.id, ctx=ast.Load())
        if isinstance(target, ast.Attribute):
            return ast.Attribute(value=target.value, attr=target.attr, ctx=ast.Load())
        if isinstance(target, ast.Subscript):
            return ast.Subscript(value=target.value, slice=target.slice, ctx=ast.Load())
        raise Unsupported("augmented assignment target")

    def exec_try(self, st: ast.Try, frame: Frame) -> None:
        try:
            try:
                self.exec_block(st.body, frame)
            except PyRaise as err:
                for h in st.handlers:
                    if self.handler_matches(h, err.exc, frame):
                        saved = frame.cur_exc
                        frame.cur_exc = err.exc
                        if h.name:
                            frame.vars[h.name] = err.exc
                        try:
                            self.exec_block(h.body, frame)
                        finally:
                            frame.cur_exc = saved
                            if h.name:
                                frame.vars.pop(h.name, None)
                        break
                else:
                    raise
            else:
                self.exec_block(st.orelse, frame)
        finally:
            if st.finalbody:
                self.exec_block(st.finalbody, frame)

    def handler_matches(self, h: ast.ExceptHandler, exc: Obj, frame: Frame) -> bool:
        if h.type is None:
            return True
        t = self.eval(h.type, frame)
        classes = list(t) if isinstance(t, tuple) else [t]
        for c in classes:
            if not isinstance(c, ClassVal):
                raise Unsupported(f"except clause with non-class {c!r}")
            if self.is_subclass(exc.cls, c.name):
                return True
        return False

    def assign(self, target: ast.expr, val: Any, frame: Frame) -> None:
        if isinstance(target, ast.Name):
            if target.id in frame.global_names:
                self.modvals[(frame.module.name, target.id)] = val
                return
            if target.id in frame.nonlocal_names:
                f = frame.parent
                while f is not None:
                    if target.id in f.vars or target.id in f.local_names:
                        f.vars[target.id] = val
                        return
                    f = f.parent
            frame.vars[target.id] = val
        elif isinstance(target, (ast.Tuple, ast.List)):
            items = self.iterate(val, target, frame)
            star = [i for i, t in enumerate(target.elts) if isinstance(t, ast.Starred)]
            if len(star) == 1:  # a, *rest, z = items
                i_ = star[0]
                after = len(target.elts) - i_ - 1
                if len(items) < len(target.elts) - 1:
                    self.raise_("ValueError", "not enough values to unpack")
                for t, v in zip(target.elts[:i_], items[:i_]):
                    self.assign(t, v, frame)
                self.assign(target.elts[i_].value, list(items[i_:len(items) - after]), frame)
                for t, v in zip(target.elts[i_ + 1:], items[len(items) - after:]):
                    self.assign(t, v, frame)
                return
            if len(items) != len(target.elts):
                self.raise_("ValueError", "unpack")
            for t, v in zip(target.elts, items):
                self.assign(t, v, frame)
        elif isinstance(target, ast.Attribute):
            obj = self.eval(target.value, frame)
            if isinstance(obj, Obj):
                if obj.cls in self.model.classes and self.is_frozen(obj.cls):
                    raise PyRaise(Obj("attrs.exceptions.FrozenInstanceError", {"args": ("can't set attribute",)}))
                obj.fields[target.attr] = val
            elif isinstance(obj, Opaque):
                self.effects.append(("setattr-opaque", (obj.label, target.attr, val)))
                self.attr_memo[(obj.oid, target.attr)] = val
            else:
                self.unsupported(target, frame, f"attribute store on {obj!r}")
        elif isinstance(target, ast.Subscript):
            cont = self.eval(target.value, frame)
            idx = self.eval(target.slice, frame)
            if isinstance(cont, (list, dict)):
                try:
                    cont[idx] = val
                except IndexError:
                    self.raise_("IndexError", "list assignment index out of range")
                except TypeError as err:
                    raise Unsupported(f"subscript store {err}") from err
            elif isinstance(cont, Obj) and cont.cls == "lark.Tree":
                self.unsupported(target, frame)
            else:
                self.unsupported(target, frame, f"subscript store on {cont!r}")
        elif isinstance(target, ast.Starred):
            self.unsupported(target, frame)
        else:
            self.unsupported(target, frame)

    def iterate(self, v: Any, node: ast.AST, frame: Optional[Frame]) -> List[Any]:
        if isinstance(v, (list, tuple)):
            return list(v)
        if is_one_shot(v):
            rest = v.fields["items"][v.fields["pos"]:]
            v.fields["pos"] = len(v.fields["items"])  # consumed: iterating it again yields nothing
            return rest
        if isinstance(v, dict):
            return list(v.keys())
        if isinstance(v, (set, frozenset)):
            return sorted(v, key=repr)
        if isinstance(v, str):
            return list(v)
        if isinstance(v, ClassVal) and v.name in self.model.classes and self.model.is_enum(self.model.cls(v.name)):
            return self.enum_all(v.name)
        if isinstance(v, Obj) and v.cls in self.model.classes and "typing.NamedTuple" in self.model.mro(v.cls):
            return [v.fields[k] for k in self.model.attrs_fields(self.model.classes[v.cls])]
        if isinstance(v, Obj) and v.cls == "types.AsyncGeneratorType":
            if v.fields.get("done"):
                return []
            v.fields["done"] = True
            return self.iterate(self.run_function(v.fields["func"], v.fields["args"], v.fields["kwargs"], node), node, frame)
        raise Unsupported(f"iteration over {v!r} at line {getattr(node, 'lineno', '?')}")

    # ------------------------------------------------------------------ expressions
    def eval(self, e: ast.expr, frame: Frame) -> Any:  # pylint:disable=too-many-branches,too-many-return-statements
        self.tick(e)
        if isinstance(e, ast.Constant):
            return e.value
        if isinstance(e, ast.Name):
            return self.lookup(e.id, frame, e)
        if isinstance(e, ast.Attribute):
            return self.getattr(self.eval(e.value, frame), e.attr, e, frame)
        if isinstance(e, ast.Call):
            return self.eval_call(e, frame)
        if isinstance(e, ast.Compare):
            left = self.eval(e.left, frame)
            for op, right_e in zip(e.ops, e.comparators):
                right = self.eval(right_e, frame)
                if not self.compare(op, left, right, e, frame):
                    return False
                left = right
            return True
        if isinstance(e, ast.BoolOp):
            val: Any = None
            for i, sub in enumerate(e.values):
                val = self.eval(sub, frame)
                if i == len(e.values) - 1:
                    return val
                t = self.truth(val, sub)
                if isinstance(e.op, ast.And) and not t:
                    return val
                if isinstance(e.op, ast.Or) and t:
                    return val
            return val
        if isinstance(e, ast.UnaryOp):
            v = self.eval(e.operand, frame)
            if isinstance(e.op, ast.Not):
                return not self.truth(v, e.operand)
            if isinstance(e.op, ast.USub) and isinstance(v, (int, float)):
                return -v
            if isinstance(e.op, ast.Invert):
                if isinstance(v, (EnumVal, Obj)):
                    cls = self.model.classes.get(v.cls)
                    m = self.model.find_method(cls, "__invert__") if cls is not None else None
                    if m is not None:
                        return self.call(FuncVal(fn=m, self_obj=v, module=m.module), [], {}, e, frame)
                if isinstance(v, int):
                    return ~v
            self.unsupported(e, frame)
        if isinstance(e, ast.BinOp):
            return self.binop(e.op, self.eval(e.left, frame), self.eval(e.right, frame), e, frame)
        if isinstance(e, ast.IfExp):
            return self.eval(e.body if self.truth(self.eval(e.test, frame), e.test) else e.orelse, frame)
        if isinstance(e, ast.JoinedStr):
            acc: Any = ""
            for part in e.values:
                if isinstance(part, ast.Constant):
                    acc = strt_concat(acc, part.value)
                else:
                    assert isinstance(part, ast.FormattedValue)
                    v = self.eval(part.value, frame)
                    if part.conversion in (ord("s"), ord("r"), ord("a")):  # the conversion comes first, then the format spec
                        v = self.to_str(v, part, frame, repr_mode=(part.conversion != ord("s")))
                    if part.format_spec is not None:
                        spec = self.eval(part.format_spec, frame)
                        if isinstance(spec, str) and isinstance(v, (str, int, float, bool)) and not isinstance(v, StrT):
                            try:
                                acc = strt_concat(acc, format(v, spec))
                                continue
                            except (ValueError, TypeError) as err_:
                                self.raise_(type(err_).__name__, str(err_))
                        if isinstance(v, Opaque) and v.kind in ("builtins.int", "builtins.float") and isinstance(spec, str):
                            acc = strt_concat(acc, StrT((Opaque(f"format({v.label}, {spec!r})"),)))  # some text for a number that is not known
                            continue
                        if spec not in ("", "s") or (spec == "s" and not isinstance(v, StrT)):
                            self.unsupported(part, frame, f"format spec {spec!r} on {v!r}")
                    acc = strt_concat(acc, v if isinstance(v, (str, StrT)) else self.to_str(v, part, frame))
            return acc
        if isinstance(e, ast.Tuple):
            return tuple(self.eval_elts(e.elts, frame))
        if isinstance(e, ast.List):
            return list(self.eval_elts(e.elts, frame))
        if isinstance(e, ast.Set):
            return set(self.eval_elts(e.elts, frame))
        if isinstance(e, ast.Dict):
            out: Dict[Any, Any] = {}
            for k, v in zip(e.keys, e.values):
                if k is None:
                    sub = self.eval(v, frame)
                    if not isinstance(sub, dict):
                        self.unsupported(e, frame, "** of non-dict")
                    out.update(sub)
                else:
                    out[self.hashable(self.eval(k, frame), e, frame)] = self.eval(v, frame)
            return out
        if isinstance(e, ast.Subscript):
            return self.subscript(self.eval(e.value, frame), e, frame)
        if isinstance(e, ast.Await):
            return self.await_(self.eval(e.value, frame), e, frame)
        if isinstance(e, (ast.ListComp, ast.SetComp, ast.GeneratorExp, ast.DictComp)):
            return self.comprehension(e, frame)
        if isinstance(e, ast.Lambda):
            return FuncVal(fn=None, env=frame, lambda_node=e, module=frame.module, defaults=self.eval_defaults(e.args, frame))
        if isinstance(e, ast.Starred):
            self.unsupported(e, frame, "starred outside call")
        if isinstance(e, ast.NamedExpr):
            v = self.eval(e.value, frame)
            self.assign(e.target, v, frame)
            return v
        self.unsupported(e, frame)
        return None

    def eval_elts(self, elts: List[ast.expr], frame: Frame) -> List[Any]:
        out: List[Any] = []
        for x in elts:
            if isinstance(x, ast.Starred):
                out.extend(self.iterate(self.eval(x.value, frame), x, frame))
            else:
                out.append(self.eval(x, frame))
        return out

    def hashable(self, k: Any, node: ast.AST, frame: Optional[Frame]) -> Any:
        if isinstance(k, (str, int, bool, EnumVal, tuple, StrT, ClassVal, frozenset)) or k is None:
            return k
        if isinstance(k, Obj) and k.cls in self.model.classes and not self.is_attrs(k.cls) \
                and "typing.NamedTuple" not in self.model.mro(k.cls) \
                and self.model.find_method(self.model.classes[k.cls], "__eq__") is None \
                and self.model.find_method(self.model.classes[k.cls], "__hash__") is None:
            return k  # a plain class instance hashes and compares by identity, like the abstract object itself
        raise Unsupported(f"unhashable/opaque dict key {k!r} at line {getattr(node, 'lineno', '?')}")

    def comprehension(self, e: ast.expr, frame: Frame) -> Any:
        sub = Frame(frame.fn, frame.module, frame, set())
        results: List[Any] = []

        def rec(i: int) -> None:
            if i == len(e.generators):
                if isinstance(e, ast.DictComp):
                    results.append((self.hashable(self.eval(e.key, sub), e, frame), self.eval(e.value, sub)))
                else:
                    results.append(self.eval(e.elt, sub))
                return
            gen = e.generators[i]
            for item in self.iterate(self.eval(gen.iter, sub), gen.iter, sub):
                self.assign(gen.target, item, sub)
                if all(self.truth(self.eval(c, sub), c) for c in gen.ifs):
                    rec(i + 1)

        rec(0)
        if isinstance(e, ast.DictComp):
            return dict(results)
        if isinstance(e, ast.SetComp):
            out = set()
            for r in results:
                out.add(self.hashable(r, e, frame))
            return out
        if isinstance(e, ast.GeneratorExp):
            return one_shot(results)  # (elements are computed eagerly; the one-shot nature of the generator object is kept)
        return results

    def compare(self, op: ast.cmpop, a: Any, b: Any, node: ast.AST, frame: Frame) -> bool:
        if isinstance(op, ast.Eq):
            return self.eq(a, b)
        if isinstance(op, ast.NotEq):
            return not self.eq(a, b)
        if isinstance(op, ast.Is):
            return self.identical(a, b)
        if isinstance(op, ast.IsNot):
            return not self.identical(a, b)
        if isinstance(op, (ast.In, ast.NotIn)):
            res = self.contains(b, a, node, frame)
            return res if isinstance(op, ast.In) else not res
        if isinstance(op, (ast.Lt, ast.LtE, ast.Gt, ast.GtE)):
            names = {ast.Lt: ("__lt__", "__gt__"), ast.LtE: ("__le__", "__ge__"), ast.Gt: ("__gt__", "__lt__"), ast.GtE: ("__ge__", "__le__")}[type(op)]
            for obj_, other_, dunder_ in ((a, b, names[0]), (b, a, names[1])):
                if isinstance(obj_, (Obj, EnumVal)) and obj_.cls in self.model.classes:
                    m_ = self.model.find_method(self.model.classes[obj_.cls], dunder_)
                    if m_ is not None:
                        return self.truth(self.call(FuncVal(fn=m_, self_obj=obj_, module=m_.module), [other_], {}, node, frame))
            if isinstance(a, (set, frozenset)) or isinstance(b, (set, frozenset)):
                # subset / superset tests (the other side may be a dict's key view, modelled as a list)
                sa = set(self.hashable(x, node, frame) for x in (a if isinstance(a, (set, frozenset, list, tuple)) else []))
                sb = set(self.hashable(x, node, frame) for x in (b if isinstance(b, (set, frozenset, list, tuple)) else []))
                if isinstance(a, (set, frozenset, list)) and isinstance(b, (set, frozenset, list)):
                    return {ast.Lt: sa < sb, ast.LtE: sa <= sb, ast.Gt: sa > sb, ast.GtE: sa >= sb}[type(op)]
            if isinstance(a, (int, float)) and isinstance(b, (int, float)) or isinstance(a, str) and isinstance(b, str):
                return {ast.Lt: a < b, ast.LtE: a <= b, ast.Gt: a > b, ast.GtE: a >= b}[type(op)]
            if isinstance(a, Opaque) or isinstance(b, Opaque):
                return self.fork(("cmp", type(op).__name__, repr(a), repr(b)), f"{a!r} {type(op).__name__} {b!r}")
        self.unsupported(node, frame, f"comparison {type(op).__name__} on {a!r}, {b!r}")
        return False

    def contains(self, container: Any, item: Any, node: ast.AST, frame: Frame) -> bool:
        if is_one_shot(container):
            items_ = container.fields["items"]
            while container.fields["pos"] < len(items_):
                container.fields["pos"] += 1
                x_ = items_[container.fields["pos"] - 1]
                if self.identical(x_, item) or self.eq(x_, item):
                    return True
            return False
        if isinstance(container, (list, tuple, set, frozenset)):
            return any(self.identical(x, item) or self.eq(x, item) for x in container)
        if isinstance(container, dict):
            return any(self.eq(k, item) for k in container)
        if isinstance(container, (str, StrT)) and isinstance(item, EnumVal) and self.is_subclass(item.cls, "builtins.str"):
            item = item.value  # a str-mixin Enum member is its value
        if isinstance(container, str) and isinstance(item, str):
            return item in container
        if isinstance(container, (StrT, str)) and isinstance(item, (StrT, str)):
            if isinstance(item, str) and isinstance(container, StrT) and item in container.literal_text():
                return True
            return self.fork(("in", repr(item), repr(container)), f"{item!r} in {container!r}")
        if isinstance(container, Opaque):
            return self.fork(("in", repr(item), container.oid), f"{item!r} in {container.label}")
        if isinstance(container, ClassVal) and container.name in self.model.classes and self.model.is_enum(self.model.classes[container.name]):
            if isinstance(item, EnumVal):
                return item.cls == container.name
            if isinstance(item, (str, int)) and not isinstance(item, bool):  # Python >= 3.12: values are accepted, too
                return any(v == item and type(v) is type(item) for v in self.members(self.model.classes[container.name]).values())
            if isinstance(item, (Opaque, StrT)):
                return self.fork(("in-enum", repr(item), container.name), f"{item!r} in {container.name}")
            return False
        self.unsupported(node, frame, f"'in' on {container!r}")
        return False

    def binop(self, op: ast.operator, a: Any, b: Any, node: ast.AST, frame: Frame) -> Any:
        if isinstance(op, (ast.BitAnd, ast.BitOr, ast.BitXor)):
            if isinstance(a, bool) and isinstance(b, bool):
                return {ast.BitAnd: a & b, ast.BitOr: a | b, ast.BitXor: a ^ b}[type(op)]
            if isinstance(a, (set, frozenset)) and isinstance(b, (set, frozenset)):
                return {ast.BitAnd: a & b, ast.BitOr: a | b, ast.BitXor: a ^ b}[type(op)]
            if isinstance(a, dict) and isinstance(b, dict) and isinstance(op, ast.BitOr):
                return {**a, **b}
            if isinstance(a, int) and isinstance(b, int):
                return {ast.BitAnd: a & b, ast.BitOr: a | b, ast.BitXor: a ^ b}[type(op)]
            dunder = {ast.BitAnd: "__and__", ast.BitOr: "__or__", ast.BitXor: "__xor__"}[type(op)]
            if isinstance(a, EnumVal):
                cls = self.model.classes.get(a.cls)
                m = self.model.find_method(cls, dunder) if cls is not None else None
                if m is not None:
                    return self.call(FuncVal(fn=m, self_obj=a, module=m.module), [b], {}, node, frame)
            if isinstance(a, Opaque) or isinstance(b, Opaque):
                return Opaque(f"({a!r}{dunder}{b!r})")
            self.unsupported(node, frame, f"{dunder} on {a!r}, {b!r}")
        if isinstance(op, ast.Add):
            if isinstance(a, (str, StrT)) and isinstance(b, (str, StrT)):
                return strt_concat(a, b)
            if isinstance(a, (int, float)) and isinstance(b, (int, float)) and not isinstance(a, bool):
                return a + b
            if isinstance(a, list) and isinstance(b, list):
                return a + b
            if isinstance(a, tuple) and isinstance(b, tuple):
                return a + b
            if isinstance(a, Obj):
                cls = self.model.classes.get(a.cls)
                m = self.model.find_method(cls, "__add__") if cls is not None else None
                if m is not None:
                    return self.call(FuncVal(fn=m, self_obj=a, module=m.module), [b], {}, node, frame)
            if isinstance(b, Obj) and not isinstance(a, Obj):
                cls = self.model.classes.get(b.cls)
                m = self.model.find_method(cls, "__radd__") or (self.model.find_method(cls, "__add__") if cls is not None else None) if cls is not None else None
                if m is not None:
                    return self.call(FuncVal(fn=m, self_obj=b, module=m.module), [a], {}, node, frame)
            if isinstance(a, (str, StrT)) and isinstance(b, Opaque) or isinstance(b, (str, StrT)) and isinstance(a, Opaque):
                return strt_concat(a if not isinstance(a, Opaque) else StrT((a,)), b if not isinstance(b, Opaque) else StrT((b,)))
        if isinstance(op, ast.Sub) and isinstance(a, (set, frozenset)) and isinstance(b, (set, frozenset)):
            return a - b
        if isinstance(op, ast.Sub) and isinstance(a, Obj) and a.cls in self.model.classes:
            m = self.model.find_method(self.model.classes[a.cls], "__sub__")
            if m is not None:
                return self.call(FuncVal(fn=m, self_obj=a, module=m.module), [b], {}, node, frame)
        if isinstance(op, (ast.Add, ast.Sub, ast.Mult, ast.Div, ast.FloorDiv, ast.Mod, ast.Pow)):
            num = lambda x_: isinstance(x_, (int, float)) and not isinstance(x_, bool)  # noqa: E731
            onum = lambda x_: isinstance(x_, Opaque) and x_.kind in ("builtins.int", "builtins.float")  # noqa: E731
            if (onum(a) and (num(b) or onum(b))) or (onum(b) and num(a)) or (isinstance(a, Opaque) and a.kind is None and num(b)) or (isinstance(b, Opaque) and b.kind is None and num(a)):
                key_ = ("arith", type(op).__name__, getattr(a, "oid", a), getattr(b, "oid", b))
                if key_ not in self.attr_memo:  # a number that is not known: the same operands give the same unknown
                    self.attr_memo[key_] = Opaque(f"({getattr(a, 'label', a)} {type(op).__name__} {getattr(b, 'label', b)})", kind="builtins.float" if isinstance(op, ast.Div) else "builtins.int")
                return self.attr_memo[key_]
            if isinstance(op, ast.Div) and num(a) and num(b):
                if b == 0:
                    self.raise_("ZeroDivisionError", "division by zero")
                return a / b
            if isinstance(op, (ast.Sub, ast.Mult)) and num(a) and num(b):
                return a - b if isinstance(op, ast.Sub) else a * b
        if isinstance(op, (ast.Sub, ast.Mult, ast.FloorDiv, ast.Mod)) and isinstance(a, int) and isinstance(b, int):
            return {ast.Sub: a - b, ast.Mult: a * b, ast.FloorDiv: a // b if b else 0, ast.Mod: a % b if b else 0}[type(op)]
        if isinstance(op, ast.Mod) and isinstance(a, str):
            vals = b if isinstance(b, tuple) else (b,)
            if all(isinstance(x, (str, int, float, bool)) or x is None for x in vals):
                try:
                    return a % b
                except (TypeError, ValueError) as err_:
                    self.raise_(type(err_).__name__, str(err_))
            return StrT((a, Opaque("%args")))
        if isinstance(op, ast.Mult) and (isinstance(a, (str, list, tuple)) and isinstance(b, int) or isinstance(b, (str, list, tuple)) and isinstance(a, int)):
            return a * b
        self.unsupported(node, frame, f"binary {type(op).__name__} on {a!r}, {b!r}")
        return None

    def subscript(self, cont: Any, e: ast.Subscript, frame: Frame) -> Any:
        if isinstance(e.slice, ast.Slice):
            lo = self.eval(e.slice.lower, frame) if e.slice.lower else None
            hi = self.eval(e.slice.upper, frame) if e.slice.upper else None
            stp = self.eval(e.slice.step, frame) if e.slice.step else None
            if isinstance(cont, (list, tuple, str)):
                return cont[lo:hi:stp]
            if isinstance(cont, StrT):
                return StrT((Opaque(f"{cont!r}[{lo}:{hi}]"),))  # some part of a text that is not known literally
            self.unsupported(e, frame, "slice")
        idx = self.eval(e.slice, frame)
        if cont is None:
            self.raise_("TypeError", "'NoneType' object is not subscriptable")
        if getattr(e, "_vstat_unpack", False) and not isinstance(cont, (list, tuple, str)):
            cont = self.iterate(cont, e, frame)  # unpacking takes the items of any iterable (a generator expression ...)
        if isinstance(cont, Obj) and cont.cls == "builtins.module_globals":
            if not isinstance(idx, str):
                self.unsupported(e, frame, f"globals()[{idx!r}]")
            try:
                return self.module_value(cont.fields["module"], idx, e)  # looked up when the subscript is evaluated (late binding)
            except Unsupported as err_:
                if "cannot be resolved" in str(err_):
                    raise PyRaise(self.exc("builtins.KeyError", idx)) from err_
                raise
        if isinstance(cont, (list, tuple, str)):
            if not isinstance(idx, int):
                self.unsupported(e, frame, f"index {idx!r}")
            try:
                return cont[idx]
            except IndexError:
                self.raise_("IndexError", "index out of range")
        if isinstance(cont, dict):
            for k, v in cont.items():
                if self.eq(k, idx):
                    return v
            raise PyRaise(self.exc("builtins.KeyError", idx))
        if isinstance(cont, ClassVal):
            c_ = self.model.classes.get(cont.name)
            if c_ is not None and self.model.is_enum(c_) and isinstance(idx, str):
                members = self.members(c_)
                if idx in members:
                    return EnumVal(cont.name, idx, members[idx])
                raise PyRaise(self.exc("builtins.KeyError", idx))
            return cont  # generic alias like BaseTransformer[...]
        if isinstance(cont, ExtVal):
            return cont
        if isinstance(cont, Opaque):
            key = (cont.oid, f"[{idx!r}]")
            if key not in self.attr_memo:
                self.attr_memo[key] = Opaque(f"{cont.label}[{idx!r}]")
            return self.attr_memo[key]
        if isinstance(cont, Obj) and cont.cls in self.model.classes and "typing.NamedTuple" in self.model.mro(cont.cls) and isinstance(idx, int):
            return self.iterate(cont, e, frame)[idx]
        if isinstance(cont, Obj):
            cls = self.model.classes.get(cont.cls)
            m = self.model.find_method(cls, "__getitem__") if cls is not None else None
            if m is not None:
                return self.call(FuncVal(fn=m, self_obj=cont, module=m.module), [idx], {}, e, frame)
            if cont.cls == "re.Match" and "m" in cont.fields:
                return cont.fields["m"][idx]
        self.unsupported(e, frame, f"subscript on {cont!r}")
        return None

    def to_str(self, v: Any, node: ast.AST, frame: Optional[Frame], repr_mode: bool = False) -> Any:
        if isinstance(v, str):
            return repr(v) if repr_mode else v
        if isinstance(v, StrT):
            return v
        if v is None or isinstance(v, (bool, int, float)):
            return str(v)
        if isinstance(v, EnumVal):
            if repr_mode:
                return f"<{v.cls.rsplit('.', 1)[-1]}.{v.name}: {v.value!r}>"
            cls = self.model.classes.get(v.cls)
            m = self.model.find_method(cls, "__str__") if cls is not None else None
            if m is not None:
                return self.to_str(self.call(FuncVal(fn=m, self_obj=v, module=m.module), [], {}, node, frame), node, frame)
            if self.is_subclass(v.cls, "enum.StrEnum"):
                return str(v.value)
            return f"{v.cls.rsplit('.', 1)[-1]}.{v.name}"
        if isinstance(v, Obj):
            cls = self.model.classes.get(v.cls)
            m = self.model.find_method(cls, "__str__") if cls is not None and not repr_mode else None
            if m is not None:
                res_ = self.call(FuncVal(fn=m, self_obj=v, module=m.module), [], {}, node, frame)
                if not isinstance(res_, (str, StrT)):
                    if isinstance(res_, Opaque):
                        return StrT((res_,))
                    self.raise_("TypeError", f"__str__ returned non-string (type {type(res_).__name__})")
                return res_
            if v.cls == "lark.Token":
                return self.to_str(v.fields.get("value"), node, frame)
            if self.is_subclass(v.cls, "builtins.BaseException"):
                args = v.fields.get("args", ())
                if len(args) == 1:
                    return self.to_str(args[0], node, frame)
                return StrT((Opaque(f"str({v.cls})"),))
            return StrT((Opaque(f"str({v.cls.rsplit('.', 1)[-1]}#{v.oid})"),))
        if isinstance(v, ClassVal):
            return f"<class '{v.name}'>"
        if isinstance(v, Opaque):
            return StrT((v,))
        if isinstance(v, (list, tuple, dict, set)):
            return StrT((Opaque(f"str({type(v).__name__})"),))
        if isinstance(v, (FuncVal, ExtVal, CoroVal)):
            return StrT((Opaque(f"str({v!r})"),))
        raise Unsupported(f"str() of {v!r}")

    # ------------------------------------------------------------------ running a function
    def run_function(self, fv: FuncVal, args: List[Any], kwargs: Dict[str, Any], node: Optional[ast.AST] = None) -> Any:
        """Interpret the body of a repo function (coroutine bodies too - `await` handling is the caller's business)."""
        if fv.lambda_node is not None:
            lam = fv.lambda_node
            frame = Frame(fv.env.fn if fv.env else None, fv.module or fv.env.module, fv.env, set())
            self.bind_params(lam.args, fv, args, kwargs, frame, "<lambda>")
            return self.eval(lam.body, frame)
        fn: FuncDef = fv.fn
        if fn.qualname in self.call_observers:
            self.call_observers[fn.qualname](([fv.self_obj] if fv.self_obj is not None else []) + list(args), kwargs)
        frame = Frame(fn, fn.module, fv.env, assigned_names(fn.node) | set(fn.params))
        self.call_depth += 1
        if self.call_depth > 60:
            raise Unsupported(f"call depth > 60 in {fn.qualname}")
        is_gen = any(isinstance(n_, (ast.Yield, ast.YieldFrom)) for n_ in walk_shallow(fn.node))
        if is_gen:
            frame.yields = []  # a finite generator is materialised eagerly (laziness is not modelled)
            frame.yield_hook = getattr(self, "pending_yield_hook", None)
            self.pending_yield_hook = None
        try:
            self.bind_params(fn.node.args, fv, args, kwargs, frame, fn.qualname)
            try:
                self.exec_block(fn.node.body, frame)
            except _Return as r:
                return (one_shot(frame.yields) if frame.yield_hook is None else None) if is_gen else r.value
            return (one_shot(frame.yields) if frame.yield_hook is None else None) if is_gen else None
        finally:
            self.call_depth -= 1

    def eval_defaults(self, a: ast.arguments, frame: Frame) -> Dict[str, Any]:
        """Parameter defaults are evaluated once, when the function object is created, in the defining scope."""
        pos = [*a.posonlyargs, *a.args]
        out: Dict[str, Any] = {}
        for p, d in zip(pos[len(pos) - len(a.defaults):], a.defaults):
            out[p.arg] = self.eval(d, frame)
        for p, d in zip(a.kwonlyargs, a.kw_defaults):
            if d is not None:
                out[p.arg] = self.eval(d, frame)
        return out

    def default_value(self, fv: Optional[FuncVal], pname: str, d: ast.expr, frame: Frame, name: str) -> Any:
        if fv is not None and fv.defaults is not None and pname in fv.defaults:
            return fv.defaults[pname]
        key = ("default", name, pname, id(d))
        if key not in self.attr_memo:  # module-level functions and methods: one default object per run (shared by all calls)
            self.attr_memo[key] = self.eval(d, Frame(None, frame.module, None, set()))
        return self.attr_memo[key]

    def bind_params(self, a: ast.arguments, fv: Optional[FuncVal], args: List[Any], kwargs: Dict[str, Any],
                    frame: Frame, name: str) -> None:
        args = list(args)
        kwargs = dict(kwargs)
        if fv is not None and fv.self_obj is not None:
            args.insert(0, fv.self_obj)
        pos = [*a.posonlyargs, *a.args]
        defaults: List[Optional[ast.expr]] = [None] * (len(pos) - len(a.defaults)) + list(a.defaults)
        injected = self.injected_params(fv) if fv is not None else {}
        for i, (p, d) in enumerate(zip(pos, defaults)):
            if i < len(args):
                if p.arg in kwargs:
                    self.raise_("TypeError", f"{name}() got multiple values for argument '{p.arg}'")
                frame.vars[p.arg] = args[i]
            elif p.arg in kwargs:
                frame.vars[p.arg] = kwargs.pop(p.arg)
            elif p.arg in injected:
                frame.vars[p.arg] = injected[p.arg]
            elif d is not None:
                frame.vars[p.arg] = self.default_value(fv, p.arg, d, frame, name)
            else:
                self.raise_("TypeError", f"{name}() missing required argument '{p.arg}'")
        if len(args) > len(pos):
            if a.vararg is None:
                self.raise_("TypeError", f"{name}() takes {len(pos)} positional arguments but {len(args)} were given")
            frame.vars[a.vararg.arg] = tuple(args[len(pos):])
        elif a.vararg is not None:
            frame.vars[a.vararg.arg] = ()
        for p, d in zip(a.kwonlyargs, a.kw_defaults):
            if p.arg in kwargs:
                frame.vars[p.arg] = kwargs.pop(p.arg)
            elif p.arg in injected:
                frame.vars[p.arg] = injected[p.arg]
            elif d is not None:
                frame.vars[p.arg] = self.default_value(fv, p.arg, d, frame, name)
            else:
                self.raise_("TypeError", f"{name}() missing keyword-only argument '{p.arg}'")
        if a.kwarg is not None:
            frame.vars[a.kwarg.arg] = kwargs
        elif kwargs:
            self.raise_("TypeError", f"{name}() got an unexpected keyword argument '{next(iter(kwargs))}'")
