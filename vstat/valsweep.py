"""Validation-level bounded sweep (C13-C17, C12, C15): the functions of ahbicht.validation.validation are interpreted
abstractly on abstract AHB trees. The expression evaluation below them (resolver + evaluate_ahb_expression_tree) is
summarised by the reference semantics of refsem (C02, C04-C10 decide that the real pipeline agrees with it); the
summary reads the format-constraint ContextVar at the moment the evaluation is awaited, so the per-task context copies
of asyncio.gather (lemma L5, modelled in fdcalls.await_) are observable."""
from __future__ import annotations

import itertools
import os
from concurrent.futures import ProcessPoolExecutor
from pathlib import Path
from typing import Any, Dict, List, Optional, Tuple

from . import refsem
from .evalmodel import Harness
from .fdvalues import ClassVal, EnumVal, Obj, PyRaise, Ready, explore
from .refsem import F, K, U
from .report import AnalysisError, Unsupported
from .srcmodel import SrcModel

VAL = "ahbicht.validation.validation"
MAUS = "maus.models.edifact_components"
RESOLVER = "ahbicht.expressions.expression_resolver.parse_expression_including_unresolved_subexpressions"
EVAL = "ahbicht.expressions.ahb_expression_evaluation.evaluate_ahb_expression_tree"
INVALID = "ahbicht.expressions.InvalidExpressionError"
EXT_BASES = {
    f"{MAUS}.SegmentGroup": [f"{MAUS}.SegmentLevel"], f"{MAUS}.Segment": [f"{MAUS}.SegmentLevel"],
    f"{MAUS}.DataElementFreeText": [f"{MAUS}.DataElement"], f"{MAUS}.DataElementValuePool": [f"{MAUS}.DataElement"],
    f"{MAUS}.DataElementDataType": ["builtins.str", "enum.Enum"],
}


# ------------------------------------------------------------------------------------------------ abstract AHB model (plain dicts)
def group(disc, expr, groups=(), segments=()):
    return {"kind": "group", "disc": disc, "expr": expr, "groups": list(groups), "segments": list(segments)}


def segment(disc, expr, elements=()):
    return {"kind": "segment", "disc": disc, "expr": expr, "elements": list(elements)}


def freetext(disc, expr, entered=None):
    return {"kind": "freetext", "disc": disc, "expr": expr, "input": entered}


def valuepool(disc, entries, entered=None):
    """entries: [(qualifier, meaning, expr)]"""
    return {"kind": "pool", "disc": disc, "entries": list(entries), "input": entered}


def to_obj(node) -> Obj:
    k = node["kind"]
    if k == "group":
        return Obj(f"{MAUS}.SegmentGroup", {"discriminator": node["disc"], "ahb_expression": node["expr"], "ahb_line_index": None,
                                             "segment_groups": [to_obj(g) for g in node["groups"]] or None,
                                             "segments": [to_obj(s) for s in node["segments"]] or None})
    if k == "segment":
        return Obj(f"{MAUS}.Segment", {"discriminator": node["disc"], "ahb_expression": node["expr"], "ahb_line_index": None,
                                        "data_elements": [to_obj(e) for e in node["elements"]], "section_name": None, "segment_id": "SEG"})
    if k == "freetext":
        return Obj(f"{MAUS}.DataElementFreeText", {"discriminator": node["disc"], "data_element_id": "0001", "entered_input": node["input"],
                                                    "value_type": None, "ahb_expression": node["expr"]})
    return Obj(f"{MAUS}.DataElementValuePool", {"discriminator": node["disc"], "data_element_id": "0002", "entered_input": node["input"],
                                                 "value_type": None,
                                                 "value_pool": [Obj(f"{MAUS}.ValuePoolEntry", {"qualifier": q, "meaning": m, "ahb_expression": e})
                                                                for (q, m, e) in node["entries"]]})


# ------------------------------------------------------------------------------------------------ reference
class RefNotImplemented(Exception):
    pass


class _AllTrue(dict):
    def __missing__(self, key):
        return True


def ref_eval(expr: str, env) -> Any:
    try:
        return refsem.ref_evaluate_ahb(expr, env["rc"], _AllTrue())
    except refsem.RefInvalid:
        return "invalid"
    except KeyError:
        return "unevaluable"  # a key nobody provided a result for


def fc_verdict(expr: str, env, text) -> Tuple[bool, Optional[str]]:
    """Format result of an expression's collected constraints for the entered text: key 9xx is fulfilled iff the text
    equals env['fc_text'][key] (an evaluator that looks at the input)."""
    if text is None:
        text_key = None
    else:
        text_key = text
    fcv = _AllTrue({k: (text_key == v) for k, v in env["fc_text"].items()})
    try:
        r = refsem.ref_evaluate_ahb(expr, env["rc"], fcv)
    except refsem.RefInvalid:
        return True, None
    return r["fc_fulfilled"], None


def ref_status(expr, parent, env):
    r = ref_eval(expr, env)
    if r == "invalid":
        return "IS_OPTIONAL", "invalid"
    st = refsem.validation_status(r["fulfilled"], r["indicator"][1], parent, env["soll"])
    if st == "raise:NotImplementedError":
        raise RefNotImplemented(expr)
    return st, r


def ref_validate(node, parent, env) -> List[Dict[str, Any]]:
    k = node["kind"]
    if k in ("group", "segment"):
        if parent == "IS_FORBIDDEN":
            own, info = "IS_FORBIDDEN", None
        else:
            own, info = ref_status(node["expr"], parent, env)
        out = [{"disc": node["disc"], "status": own, "invalid": info == "invalid"}]
        if own != "IS_FORBIDDEN":
            if k == "group":
                for g in node["groups"]:
                    out += ref_validate(g, own, env)
                for s in node["segments"]:
                    out += ref_validate(s, own, env)
            else:
                for e in node["elements"]:
                    out += ref_validate(e, own, env)
        return out
    if k == "freetext":
        own, info = ref_status(node["expr"], parent, env)
        if info == "invalid":
            return [{"disc": node["disc"], "status": "IS_OPTIONAL*", "invalid": True, "format": True}]
        suffix = "_AND_FILLED" if node["input"] else "_AND_EMPTY"
        fmt, _ = fc_verdict(node["expr"], env, node["input"])
        return [{"disc": node["disc"], "status": own + suffix, "invalid": False, "format": fmt}]
    return [ref_pool(node, parent, env)]


def ref_pool(node, parent, env) -> Dict[str, Any]:
    entries = node["entries"]
    offered: List[str] = []
    if parent != "IS_FORBIDDEN":
        if len(entries) == 1:
            offered = [entries[0][0]]
        else:
            for q, _m, e in entries:
                r = ref_eval(e, env)
                if r == "invalid" or r["fulfilled"]:
                    offered.append(q)
    inp = node["input"]
    if not offered:
        return {"disc": node["disc"], "status": "IS_FORBIDDEN", "offered": [], "format": True, "input_after": inp}
    if inp in offered:
        return {"disc": node["disc"], "status": "IS_REQUIRED_AND_FILLED", "offered": offered, "format": True, "input_after": inp}
    if inp:
        return {"disc": node["disc"], "status": "IS_REQUIRED_AND_EMPTY", "offered": offered, "format": False, "input_after": None}
    return {"disc": node["disc"], "status": "IS_REQUIRED_AND_EMPTY", "offered": offered, "format": True, "input_after": inp}


# ------------------------------------------------------------------------------------------------ abstract run
def make_harness(model: SrcModel, chooser, env, order: str):
    go = (lambda n: range(n)) if order == "fwd" else (lambda n: list(reversed(range(n))))

    def summary_resolve(it, func, args, kwargs):
        text = args[0] if args else kwargs.get("expression")
        if not isinstance(text, str):
            raise Unsupported(f"resolver called with {text!r}")
        # flags that are not passed take the defaults of the function as it is written today
        import ast as _ast

        sig_defaults = {}
        fn_node = getattr(getattr(func, "fn", None), "node", None)
        if fn_node is not None:
            pos = [*fn_node.args.posonlyargs, *fn_node.args.args]
            for p_, d_ in zip(pos[len(pos) - len(fn_node.args.defaults):], fn_node.args.defaults):
                if isinstance(d_, _ast.Constant):
                    sig_defaults[p_.arg] = d_.value
            for p_, d_ in zip(fn_node.args.kwonlyargs, fn_node.args.kw_defaults):
                if isinstance(d_, _ast.Constant):
                    sig_defaults[p_.arg] = d_.value
        rp = kwargs.get("resolve_packages", args[1] if len(args) > 1 else sig_defaults.get("resolve_packages", False))
        rt = kwargs.get("replace_time_conditions", args[2] if len(args) > 2 else sig_defaults.get("replace_time_conditions", True))
        if rp is not True or rt is not True:
            it.effects.append(("resolver-flags", f"resolve_packages={rp!r}, replace_time_conditions={rt!r} for {text!r}"))
        try:
            refsem.parse_ahb(text)
        except refsem.RefSyntaxError:
            return Ready(exc=Obj("builtins.SyntaxError", {"args": (text,)}))
        return Ready(Obj("lark.Tree", {"data": "ahb_expression", "children": [], "_src": text}))

    def summary_eval(it, func, args, kwargs):
        t = args[0] if args else kwargs.get("parsed_tree")
        if not (isinstance(t, Obj) and "_src" in t.fields):
            raise Unsupported(f"evaluate_ahb_expression_tree called with {t!r}")
        text = t.fields["_src"]
        # the format constraint evaluators read the context variable when the evaluation runs
        cv_text = None
        for cv in it.ctxvars:
            if cv.fields.get("name") == "text_to_be_evaluated_by_format_constraint":
                cv_text = cv.fields["value"] if cv.fields["value"] is not KeyError else None
        fcv = _AllTrue({k: (cv_text == v) for k, v in env["fc_text"].items()})
        # a requirement constraint nobody provided a result for cannot be evaluated
        try:
            used = [k for (_kd, _w, c) in refsem.parse_ahb_tokens(text) if c is not None for k in refsem.keys_of(c)]
        except Exception:  # pylint:disable=broad-except
            used = []
        missing = [k for k in used if refsem.key_kind(k) == "rc" and k not in env["rc"]]
        if missing:
            return Ready(exc=Obj("builtins.NotImplementedError", {"args": (f"There is no content_evaluation method for condition '{missing[0]}'",)}))
        try:
            r = refsem.ref_evaluate_ahb(text, env["rc"], fcv)
        except refsem.RefInvalid as err:
            exc = Obj(INVALID, {"args": (), "error_message": f"invalid: {err}", "invalid_expression": None})
            return Ready(exc=exc)
        ER = "ahbicht.models.evaluation_results"
        ind = it.enum(f"ahbicht.models.enums.{r['indicator'][0]}", r["indicator"][1])
        rc_res = Obj(f"{ER}.RequirementConstraintEvaluationResult", {
            "requirement_constraints_fulfilled": r["fulfilled"], "requirement_is_conditional": r["conditional"],
            "format_constraints_expression": None, "hints": f"hints of {text}" if r["hint_keys"] else None})
        fc_res = Obj(f"{ER}.FormatConstraintEvaluationResult", {
            "format_constraints_fulfilled": r["fc_fulfilled"], "error_message": None if r["fc_fulfilled"] else f"format error of {text} for {cv_text!r}"})
        return Ready(Obj(f"{ER}.AhbExpressionEvaluationResult", {"requirement_indicator": ind, "requirement_constraint_evaluation_result": rc_res,
                                                                   "format_constraint_evaluation_result": fc_res}))

    h = Harness(model, chooser, gather_order=go, extra_summaries={RESOLVER: summary_resolve, EVAL: summary_eval})
    h.it.ext_bases.update(EXT_BASES)
    return h


def record(res: Any) -> Any:
    """ValidationResultInContext (list) -> plain records."""
    if isinstance(res, list):
        return [record(x) for x in res]
    if not isinstance(res, Obj):
        return {"value": repr(res)}
    vr = res.fields.get("validation_result")
    st = vr.fields.get("requirement_validation") if isinstance(vr, Obj) else None
    rec = {"disc": res.fields.get("discriminator"), "status": st.name if isinstance(st, EnumVal) else repr(st),
           "hints": vr.fields.get("hints") if isinstance(vr, Obj) else None}
    if isinstance(vr, Obj) and vr.cls.endswith("DataElementValidationResult"):
        rec["format"] = vr.fields.get("format_validation_fulfilled")
        pv = vr.fields.get("possible_values")
        rec["offered"] = list(pv.keys()) if isinstance(pv, dict) else pv
    return rec


def run_validation(model: SrcModel, entry: str, node, env, order: str = "fwd", parent: Optional[str] = "absent", positional: bool = False):
    """entry: 'deep' | 'group' | 'segment' | 'element' | 'pool' | 'level'. Returns ('ret', records, node object) | ('raise', cls)."""

    def run(ch):
        h = make_harness(model, ch, env, order)
        it = h.it
        obj = to_obj(node)
        RV = "ahbicht.models.validation_values.RequirementValidationValue"
        pv = None if parent in ("absent", None) else it.enum(RV, parent)
        try:
            if entry == "deep":
                deep = Obj("maus.models.anwendungshandbuch.DeepAnwendungshandbuch", {"meta": None, "lines": [obj]})
                res = h.call(f"{VAL}.validate_deep_anwendungshandbuch", deep, env["soll"]) if positional else \
                    h.call(f"{VAL}.validate_deep_anwendungshandbuch", deep, soll_is_required=env["soll"])
            elif entry == "level":
                res = h.call(f"{VAL}.validate_segment_level", obj, env["soll"]) if positional else \
                    h.call(f"{VAL}.validate_segment_level", obj, soll_is_required=env["soll"])
            elif entry == "group":
                res = h.call(f"{VAL}.validate_segment_group", obj, pv, env["soll"])
            elif entry == "segment":
                res = h.call(f"{VAL}.validate_segment", obj, pv, env["soll"])
            elif entry == "element":
                res = h.call(f"{VAL}.validate_data_element", obj, pv, env["soll"])
            elif entry == "pool":
                res = h.call(f"{VAL}.validate_data_element_valuepool", obj, pv)
            elif entry == "pool-via-dispatch":  # the way segments reach a value pool: through the data element dispatcher
                res = h.call(f"{VAL}.validate_data_element", obj, pv, env["soll"])
            else:
                raise Unsupported(entry)
        except PyRaise as err:
            return ("raise", err.exc.cls)
        flags = [e[1] for e in it.effects if e[0] == "resolver-flags"]
        if flags:
            return ("raise", f"validation parses an expression without resolving packages/time conditions: {flags[0]}")
        return ("ret", record(res), obj.fields.get("entered_input") if "entered_input" in obj.fields else None)

    outs = [o for _, o in explore(run)]
    if len(outs) != 1:
        raise Unsupported(f"validation forks into {len(outs)} paths")
    return outs[0]


def compare(got_records, want_records) -> Optional[str]:
    if not isinstance(got_records, list):
        got_records = [got_records]
    gd = [r.get("disc") for r in got_records]
    wd = [r["disc"] for r in want_records]
    if gd != wd:
        return f"reported nodes {gd} instead of {wd} (every visited node once, in document order, nothing below a forbidden node)"
    for g, w in zip(got_records, want_records):
        ws = w["status"]
        if ws.endswith("*"):
            if not g["status"].startswith(ws[:-1]):
                return f"node {w['disc']}: status {g['status']}, expected {ws[:-1]} (optional)"
        elif g["status"] != ws:
            return f"node {w['disc']}: status {g['status']}, expected {ws}"
        if w.get("invalid") and not g.get("hints"):
            return f"node {w['disc']}: the invalid expression's reason is not reported as hint"
        if "format" in w and g.get("format") is not w["format"]:
            return f"node {w['disc']}: format validation {g.get('format')}, expected {w['format']} for its own entered input"
        if "offered" in w and g.get("offered") != w["offered"]:
            return f"node {w['disc']}: offered values {g.get('offered')}, expected {w['offered']} (pool order)"
    return None


# ------------------------------------------------------------------------------------------------ case families
def node_choices(i: int, tier: str) -> List[Tuple[str, Optional[str]]]:
    base = [("Muss", None), (f"Muss [{i}]", F), (f"Muss [{i}]", U), (f"muss[{i}]", K), (f"Soll [{i}]", F), (f"S[{i}]", K), (f"Kann [{i}]", F),
            (f"X [{i}]", F), ("S", None), (f"Muss [{i}] O [50{i}]", F), (f"Kann [{i}]", U)]
    if tier == "thorough":
        base += [(f"Soll [{i}]", U), (f"k[{i}]", K), (f"x[{i}]", U), (f"O [{i}]", K), ("K", None), ("soll", None), ("u", None),
                 (f"Soll [{i}] Kann", U), (f"Muss [{i}] Soll [50{i}]", U)]
    return base


SOLL_WORD = __import__("re").compile(r"(?<![A-Za-z])(soll|s)(?![A-Za-z])", __import__("re").I)


def rewrite_soll(node, word: str):
    n = dict(node)
    if "expr" in n:
        n["expr"] = SOLL_WORD.sub(word, n["expr"])
    for key in ("groups", "segments", "elements"):
        if key in n:
            n[key] = [rewrite_soll(c, word) for c in n[key]]
    if "entries" in n:
        n["entries"] = [(q, m, SOLL_WORD.sub(word, e)) for (q, m, e) in n["entries"]]
    return n


def has_soll(node) -> bool:
    if "expr" in node and SOLL_WORD.search(node["expr"]):
        return True
    return any(has_soll(c) for key in ("groups", "segments", "elements") for c in node.get(key, []))


def replace_invalid(node, env):
    """The AHB in which every invalid expression is replaced by 'Kann' (C16)."""
    n = dict(node)
    if "expr" in n and ref_eval(n["expr"], env) == "invalid":
        n["expr"] = "Kann"
    for key in ("groups", "segments", "elements"):
        if key in n:
            n[key] = [replace_invalid(c, env) for c in n[key]]
    if "entries" in n:
        n["entries"] = [(q, m, "Kann" if ref_eval(e, env) == "invalid" else e) for (q, m, e) in n["entries"]]
    return n


def invalid_discs(node, env, acc=None) -> List[str]:
    acc = [] if acc is None else acc
    if "expr" in node and ref_eval(node["expr"], env) == "invalid":
        acc.append(node["disc"])
    for key in ("groups", "segments", "elements"):
        for c in node.get(key, []):
            invalid_discs(c, env, acc)
    return acc


def families(tier: str) -> List[Dict[str, Any]]:
    cases: List[Dict[str, Any]] = []
    # A: chains group -> segment -> free text (parent dominance, pruning, flag, invalid, UNKNOWN)
    for (e1, s1), (e2, s2), (e3, s3) in itertools.product(node_choices(1, tier), node_choices(2, tier), node_choices(3, tier)):
        rc = {k: v for k, v in (("1", s1), ("2", s2), ("3", s3)) if v}
        node = group("G1", e1, segments=[segment("S2", e2, elements=[freetext("D3", e3, "x" if (len(e1) + len(e3)) % 2 else None)])])
        for soll in (True, False):
            cases.append({"family": "chain3", "entry": "deep", "node": node, "env": {"rc": rc, "fc_text": {}, "soll": soll}})
    # A2: depth 4 with sub group
    small = [c for c in node_choices(1, "quick") if c[0].split(" ")[0].lower() in ("muss", "kann", "soll", "s")][:6]
    for combo in itertools.product(range(len(small)), repeat=4):
        rc = {}
        exprs = []
        for pos, ci in enumerate(combo, 1):
            e, st = node_choices(pos, "quick")[[c[0].replace("1", "#") for c in node_choices(1, "quick")].index(small[ci][0].replace("1", "#"))]
            exprs.append(e)
            if st:
                rc[str(pos)] = st
        node = group("G1", exprs[0], groups=[group("G2", exprs[1], segments=[segment("S3", exprs[2], elements=[freetext("D4", exprs[3], "y")])])])
        for soll in (True, False):
            cases.append({"family": "chain4", "entry": "deep", "node": node, "env": {"rc": rc, "fc_text": {}, "soll": soll}})
    # B: wide trees (order, once, pruning) with gather schedules
    patterns = [("Muss", "Muss", "Muss", "Muss"), ("Muss", "Kann [9]", "Muss", "X"), ("Muss [9]", "Muss", "Muss", "Muss"), ("Muss", "Muss [9]", "Soll [8]", "Muss"),
                ("Kann", "Muss", "Muss [9]", "Soll"), ("Muss", "Muss", "Muss", "Muss [9]"), ("Soll [8]", "Kann [8]", "X [8]", "Muss [8] O [508]")]
    for pi, (a, b, c, d) in enumerate(patterns):
        node = group("G", a, groups=[
            group("G.1", b, groups=[group("G.1.1", c, segments=[segment("G.1.1.S", d, elements=[freetext("G.1.1.S.D", "Muss", "v")])])],
                  segments=[segment("G.1.S1", c, elements=[freetext("G.1.S1.D1", d, "in1"), freetext("G.1.S1.D2", "K", None)]),
                            segment("G.1.S2", "Muss", elements=[valuepool("G.1.S2.P", [("Q1", "m", "X"), ("Q2", "m", b if "[" in b else "X [8]")], "Q1")])]),
            group("G.2", d if "O" not in d else "Muss", segments=[segment("G.2.S", a, elements=[freetext("G.2.S.D", c, "")])])],
            segments=[segment("G.S1", b, elements=[freetext("G.S1.D1", "Muss", "a"), valuepool("G.S1.P", [("A", "m", "X")], None), freetext("G.S1.D3", c, "b")]),
                      segment("G.S2", c, elements=[])])
        for soll in (True, False):
            cases.append({"family": "wide", "entry": "deep", "node": node, "env": {"rc": {"9": U, "8": F}, "fc_text": {}, "soll": soll}, "orders": True})
            cases.append({"family": "wide", "entry": "level", "node": node, "env": {"rc": {"9": U, "8": F}, "fc_text": {}, "soll": soll}})
    # C: value pools
    outcomes = [("X [1]", F), ("X [1]", U), ("X [1]", K), ("X [1] O [501]", F)]
    inputs = [None, "", "Q1", "Q2", "Q3", "ZZZ", "Q", "Q1, Q2"]
    max_pool = 2 if tier == "quick" else 3
    for n in range(1, max_pool + 1):
        for combo in itertools.product(range(4), repeat=n):
            entries = []
            rc = {}
            for pos, oi in enumerate(combo, 1):
                e, st = outcomes[oi]
                entries.append((f"Q{pos}", f"meaning {pos}", e.replace("1]", f"{pos}]").replace("501", f"50{pos}")))
                rc[str(pos)] = st
            for inp in inputs:
                for parent in ("IS_REQUIRED", "IS_OPTIONAL", "IS_FORBIDDEN"):
                    cases.append({"family": "pool", "entry": "pool", "node": valuepool("P", entries, inp), "env": {"rc": rc, "fc_text": {}, "soll": True}, "parent": parent})
    # pool order: fulfilled qualifiers not in alphabetical order
    entries = [("ZD2", "m", "X [1]"), ("Z15", "m", "X [1]"), ("E03", "m", "X [2]"), ("E01", "m", "X [1]")]
    for inp in (None, "E01", "E03"):
        cases.append({"family": "pool", "entry": "pool", "node": valuepool("P", entries, inp), "env": {"rc": {"1": F, "2": U}, "fc_text": {}, "soll": True}, "parent": "IS_REQUIRED"})
    # equal expressions on non-adjacent entries, all fulfilled: the offered values keep the order of the pool
    entries = [("Z01", "m", "X [1]"), ("Z02", "m", "X"), ("Z03", "m", "X [1]"), ("Z04", "m", "X [3]"), ("Z05", "m", "X")]
    for inp in (None, "Z03", "Z09"):
        cases.append({"family": "pool", "entry": "pool", "node": valuepool("P", entries, inp), "env": {"rc": {"1": F, "3": F}, "fc_text": {}, "soll": True}, "parent": "IS_REQUIRED"})
    # qualifiers and inputs are compared as they are: no trimming, no case folding - directly and through the dispatcher
    entries = [("GABi-RLMmT", "m", "X [1]"), ("E01", "m", "X [1]"), ("E02", "m", "X [2]"), ("5.2e", "m", "X [1]")]
    for inp in ("GABi-RLMmT", "gabi-rlmmt", "GABI-RLMMT", "e01", " E01", "E01 ", "E02", "e02", "5.2e", "5.2E", None, ""):
        for entry in POOL_ENTRIES:
            cases.append({"family": "pool", "entry": entry, "node": valuepool("P", entries, inp), "env": {"rc": {"1": F, "2": U}, "fc_text": {}, "soll": True}, "parent": "IS_REQUIRED"})
    for inp in ("5.2e", "5.2E", " 5.2e", None):
        for entry in POOL_ENTRIES:
            cases.append({"family": "pool", "entry": entry, "node": valuepool("P", [("5.2e", "m", "X [2]")], inp), "env": {"rc": {"2": U}, "fc_text": {}, "soll": True}, "parent": "IS_REQUIRED"})
    # entries whose expression carries a format constraint: only the requirement outcome decides whether a qualifier is offered
    for entries, rc in (([("Q1", "m", "X [1][903]"), ("Q2", "m", "X [2]")], {"1": F, "2": U}),
                        ([("Q1", "m", "X [903]"), ("Q2", "m", "X [1][904]")], {"1": U}),
                        ([("Q1", "m", "X [1][903]"), ("Q2", "m", "X [2][904]")], {"1": F, "2": F})):
        for inp in (None, "Q1", "Q2"):
            cases.append({"family": "pool", "entry": "pool", "node": valuepool("P", entries, inp),
                          "env": {"rc": rc, "fc_text": {"903": "never entered", "904": "never entered either"}, "soll": True}, "parent": "IS_REQUIRED"})
    # a single-entry pool always offers its entry - also when its expression could not be evaluated with the given results
    for expr in ("X [77]", "X [1][903]", "Muss [77] U [1]"):
        for inp in (None, "Q1", "Q9"):
            cases.append({"family": "pool", "entry": "pool", "node": valuepool("P", [("Q1", "m", expr)], inp),
                          "env": {"rc": {"1": U}, "fc_text": {"903": "never entered"}, "soll": True}, "parent": "IS_REQUIRED"})
    # D: free texts with format constraints that look at the entered input (C15)
    texts = ["abc", "", None, "xyz", " abc", "q"]
    for combo in itertools.permutations(texts, 3) if tier == "thorough" else [("abc", "", "xyz"), ("", "abc", None), ("xyz", None, "abc"), (" abc", "abc", "q"), ("abc", "abc", "")]:
        els = [freetext(f"D{j}", f"Muss [1][90{j}]", t) for j, t in enumerate(combo, 1)]
        node = group("G", "Muss", segments=[segment("S", "Muss", elements=els), segment("S'", "Muss", elements=[freetext("D9", "Muss [1][909]", combo[0])])])
        env = {"rc": {"1": F}, "fc_text": {"901": "abc", "902": "abc", "903": "abc", "909": "abc"}, "soll": True}
        cases.append({"family": "ctx", "entry": "deep", "node": node, "env": env, "orders": True, "alone": True})
    # elements sharing a discriminator (maus documents discriminator=None for elements not found in the MIG)
    for discs in (("D", "D", "D"), (None, None, "E"), ("A", None, "A")):
        els = [freetext(d, f"Muss [1][90{j}]", t) for j, (d, t) in enumerate(zip(discs, ("abc", "tooshort", "")), 1)]
        node = group("G", "Muss", segments=[segment("S", "Muss", elements=els)])
        env = {"rc": {"1": F}, "fc_text": {"901": "abc", "902": "abc", "903": "abc"}, "soll": True}
        cases.append({"family": "ctx", "entry": "deep", "node": node, "env": env, "orders": True})
        els2 = [freetext(discs[0], "Muss [1]", "x"), freetext(discs[1], "Kann [2]", None), valuepool(discs[2], [("Q1", "m", "X"), ("Q2", "m", "X [2]")], "Q1")]
        node2 = group("G", "Muss", segments=[segment("S", "Muss", elements=els2)])
        cases.append({"family": "wide", "entry": "deep", "node": node2, "env": {"rc": {"1": F, "2": U}, "fc_text": {}, "soll": True}, "orders": True})
    return cases


POOL_ENTRIES = ("pool", "pool-via-dispatch")


def check_case(model: SrcModel, case) -> List[Tuple[str, str, str]]:
    problems: List[Tuple[str, str, str]] = []
    node, env, entry = case["node"], case["env"], case["entry"]
    parent = case.get("parent", "absent")
    fam = case["family"]

    def label() -> str:
        def show(n):
            if n["kind"] == "pool":
                return f"{n['disc']}{{{', '.join(q + ':' + e for q, _m, e in n['entries'])}}}<-{n['input']!r}"
            inner = ", ".join(show(c) for key in ("groups", "segments", "elements") for c in n.get(key, []))
            extra = f"<-{n['input']!r}" if n["kind"] == "freetext" else ""
            return f"{n['disc']}:'{n['expr']}'{extra}" + (f"({inner})" if inner else "")

        rc = ",".join(f"{k}={v[:3]}" for k, v in sorted(env["rc"].items()))
        return f"{show(node)} | {rc} | soll_is_required={env['soll']}" + (f" | parent={parent}" if parent != "absent" else "")

    key = label()
    got = run_validation(model, entry, node, env, "fwd", parent)
    try:
        want = [ref_pool(node, parent if parent != "absent" else None, env)] if entry in POOL_ENTRIES else ref_validate(node, None, env)
        want_raise = None
    except RefNotImplemented:
        want, want_raise = None, "builtins.NotImplementedError"
    rule = {"pool": "C17.pool", "ctx": "C15.own-input"}.get(fam, "C13.tree")
    if want_raise:
        if got != ("raise", want_raise):
            problems.append((rule, key, f"{key}: a visited MUSS/prefix-operator node is UNKNOWN, documented behaviour is NotImplementedError, got {got[:2]}"))
    elif got[0] == "raise":
        r = rule
        if got[1] == INVALID:
            r = "C16.abort"
        elif invalid_discs(node, env) and entry not in POOL_ENTRIES:
            if run_validation(model, entry, replace_invalid(node, env), env, "fwd", parent)[0] == "ret":
                r = "C16.abort"
        elif entry in POOL_ENTRIES and any(ref_eval(e, env) == "invalid" for _q, _m, e in node["entries"]):
            repl_entries = [(q, m, "Kann" if ref_eval(e, env) == "invalid" else e) for q, m, e in node["entries"]]
            if run_validation(model, entry, dict(node, entries=repl_entries), env, "fwd", parent)[0] == "ret":
                r = "C16.abort"
        problems.append((r, key, f"{key}: validation aborts with {got[1]}"))
    else:
        diff = compare(got[1], want)
        if diff:
            problems.append((rule, key, f"{key}: {diff}"))
        if entry in POOL_ENTRIES and not diff and want[0]["input_after"] != got[2]:
            problems.append((rule, key, f"{key}: entered input afterwards is {got[2]!r}, expected {want[0]['input_after']!r} (an unexpected value is reported as empty)"))
    if case.get("orders") and got[0] == "ret":
        rev = run_validation(model, entry, node, env, "rev", parent)
        if rev[:2] != got[:2]:
            problems.append(("C12.order", key, f"{key}: the result depends on the completion order of the gathered validations: reversed schedule gives {rev[:2]}"))
    # C14: the flag is equivalent to rewriting SOLL
    if fam in ("chain3", "chain4", "wide") and has_soll(node):
        rewritten = rewrite_soll(node, "Muss" if env["soll"] else "Kann")
        other = run_validation(model, entry, rewritten, env, "fwd", parent)
        a = got[1] if got[0] == "ret" else got
        b = other[1] if other[0] == "ret" else other
        strip = lambda recs: [(r["disc"], r["status"], r.get("format"), r.get("offered")) for r in recs] if isinstance(recs, list) else recs
        if strip(a) != strip(b):
            problems.append(("C14.rewrite", key, f"{key}: differs from the AHB with every SOLL rewritten to {'MUSS' if env['soll'] else 'KANN'}: {strip(a)} vs {strip(b)}"))
    # C16: every other node as if the invalid expression were 'Kann'
    inv = invalid_discs(node, env)
    if inv and entry not in POOL_ENTRIES and got[0] == "ret" and not want_raise:
        repl = run_validation(model, entry, replace_invalid(node, env), env, "fwd", parent)
        if repl[0] == "ret":
            a = {r["disc"]: (r["status"], r.get("format"), r.get("offered")) for r in got[1]}
            b = {r["disc"]: (r["status"], r.get("format"), r.get("offered")) for r in repl[1]}
            for d in b:
                if d in inv:
                    if d in a and not a[d][0].startswith("IS_OPTIONAL"):
                        problems.append(("C16.kann", key, f"{key}: node {d} carries an invalid expression and is reported {a[d][0]} instead of optional"))
                elif a.get(d) != b[d]:
                    problems.append(("C16.kann", key, f"{key}: node {d} is {a.get(d)} but {b[d]} in the AHB where the invalid expression is replaced by 'Kann'"))
    if fam == "pool" and entry in POOL_ENTRIES:
        for i, (q, _m, e) in enumerate(node["entries"]):
            pass
    # C15: every element alone gives the same result
    if case.get("alone") and got[0] == "ret":
        by_disc = {r["disc"]: r for r in got[1]}
        for seg in node["segments"]:
            for el in seg["elements"]:
                alone = run_validation(model, "element", el, env, "fwd", "IS_REQUIRED")
                if el["disc"] not in by_disc:
                    problems.append(("C15.own-input", key, f"{key}: element {el['disc']} is not reported at all when it is validated inside the tree"))
                    continue
                if alone[0] != "ret" or (alone[1]["status"], alone[1].get("format")) != (by_disc[el["disc"]]["status"], by_disc[el["disc"]].get("format")):
                    problems.append(("C15.own-input", key, f"{key}: element {el['disc']} validated on its own gives {alone[1] if alone[0] == 'ret' else alone}, inside the tree {by_disc[el['disc']]}"))
    return problems


def _worker(args):
    repo, overlay_items, tier, idxs = args
    model = SrcModel(Path(repo), overlay=dict(overlay_items))
    cs = families(tier)
    problems, errors = [], []
    for i in idxs:
        try:
            problems.extend(check_case(model, cs[i]))
        except AnalysisError as err:
            errors.append(f"{type(err).__name__}: {err}")
        except (KeyError, IndexError, TypeError, AttributeError, ValueError) as err:  # the comparison code met a result shape it does not know
            errors.append(f"Unsupported: result of case {i} has an unexpected shape ({type(err).__name__}: {err})")
    return problems, errors


def cached_val_sweep(model: SrcModel, tier: str):
    from .rcsweep import disk_cached

    def compute():
        cs = families(tier)
        n = len(cs)
        jobs = [(str(model.repo), tuple(sorted(model.overlay.items())), tier, list(range(i, n, 48))) for i in range(48)]
        problems, errors = [], []
        with ProcessPoolExecutor(max_workers=int(os.environ.get("VSTAT_WORKERS") or min(16, os.cpu_count() or 4))) as ex:
            for p, e in ex.map(_worker, jobs):
                problems.extend(p)
                errors.extend(e)
        fam_counts: Dict[str, int] = {}
        for c in cs:
            fam_counts[c["family"]] = fam_counts.get(c["family"], 0) + 1
        def brief(c):
            n_ = c["node"]
            return {"family": c["family"], "entry": c["entry"], "root": n_.get("expr", n_.get("entries")), "rc": c["env"]["rc"], "soll_is_required": c["env"]["soll"], "parent": c.get("parent")}

        return {"cases": n, "families": fam_counts, "problems": problems, "errors": sorted(set(errors))[:5],
                "samples": [brief(c) for c in cs[:: max(1, n // 8)]][:8]}

    return disk_cached(model, f"valsweep-{tier}", compute)


def report(ctx, rules: Tuple[str, ...], file: str = "src/ahbicht/validation/validation.py") -> None:
    doc = cached_val_sweep(ctx.model, ctx.tier)
    if doc["errors"]:
        raise Unsupported(f"validation sweep cannot decide: {doc['errors'][0]}")
    n = doc["cases"]
    ctx.count(n)
    ctx.units["validation_sweep_cases"] = doc["families"]
    by_key: Dict[Tuple[str, str], List[str]] = {}
    for rule, key, msg in doc["problems"]:
        if rule in rules:
            by_key.setdefault((rule, key), []).append(msg)
    applies = {"C17.pool": ("pool",), "C15.own-input": ("ctx",), "C12.order": ("wide", "ctx"), "C13.tree": ("chain3", "chain4", "wide"),
               "C14.rewrite": ("chain3", "chain4", "wide"), "C16.abort": ("chain3", "chain4", "wide", "pool"), "C16.kann": ("chain3", "chain4", "wide")}
    for rule in rules:
        bad = {k for (r, k) in by_key if r == rule}
        m = sum(doc["families"].get(f, 0) for f in applies.get(rule, tuple(doc["families"])))
        ctx.obligations += max(0, m - len(bad))
        ctx.discharged += max(0, m - len(bad))
        ctx.rules_run[rule] = ctx.rules_run.get(rule, 0) + m
        ctx.nontrivial_keys.add(f"{rule}::validation-sweep")
        ctx.bulk_distinct += max(0, m - 1)
    shown = 0
    for (rule, key), msgs in sorted(by_key.items()):
        if shown < 15:
            ctx.ob(rule, key, False, msgs[0], file=file)
            shown += 1
        else:
            ctx.obligations += 1
            ctx.findings.append(__import__("vstat.report", fromlist=["Finding"]).Finding(rule=rule, key=f"{rule}::{key}", what=msgs[0], file=file)) if False else None
    if len(by_key) > 15:
        ctx.note(f"{len(by_key) - 15} further failing cases not listed")
    ctx.sample({"validation_sweep": doc["families"]})
    for smp in doc.get("samples", [])[:4]:
        ctx.sample({"swept_validation_case": smp})
