"""Hidden-state rule shared by several properties: functions on an evaluation path must not remember anything
between calls. Reported constructs (each with file:line and the function):

  * a store into / mutating call on a module-level variable (dict/list/set caches, counters), `global` rebinding;
  * a store into `self.<attr>` (or mutation of it) outside __init__ in a class whose instances are long-lived
    (evaluators, providers, resolvers, schemas ... - everything except the per-call objects listed in PER_CALL);
  * a memoising decorator (lru_cache / cache / cached_property ...) other than on the two parse functions;
  * a `return` of a module-level mutable object (the same instance would be shared by all callers);
  * a store into a class attribute through the class name.
"""
from __future__ import annotations

import ast
from typing import Dict, Iterable, List, Optional, Set, Tuple

from .srcmodel import ClassDef, FuncDef, SrcModel, assigned_expr, dotted, norm, walk_shallow

MUTATORS = {"append", "extend", "insert", "add", "update", "setdefault", "pop", "popitem", "clear", "remove", "discard",
            "sort", "reverse", "__setitem__", "appendleft", "move_to_end"}
ONE_SHOT_FACTORIES = ("zip", "map", "filter", "iter", "reversed", "enumerate", "chain", "islice", "starmap", "zip_longest", "product", "permutations", "combinations")
MEMO_DECORATORS = ("lru_cache", "cache", "cached_property", "memoize", "alru_cache", "cached")
# classes whose instances live for one call only (created and dropped inside one evaluation step)
PER_CALL_BASES = ("lark.Transformer", "lark.visitors.Transformer", "ahbicht.expressions.expression_builder.ExpressionBuilder")
PER_CALL_CLASSES = ("ahbicht.condition_node_builder.ConditionNodeBuilder", "ahbicht.json_serialization.tree_schema._TokenOrTree")
ALLOWED_MEMO = (
    "ahbicht.expressions.condition_expression_parser.parse_condition_expression_to_tree",
    "ahbicht.expressions.ahb_expression_parser.parse_ahb_expression_to_single_requirement_indicator_expressions",
)


def _root_name(node: ast.AST) -> Optional[str]:
    while isinstance(node, (ast.Attribute, ast.Subscript)):
        node = node.value
    return node.id if isinstance(node, ast.Name) else None


def _is_self_attr(node: ast.AST) -> Optional[str]:
    """'attr' if node is self.attr or self.attr[...]... rooted at self.<attr>"""
    chain = node
    last_attr = None
    while isinstance(chain, (ast.Attribute, ast.Subscript)):
        if isinstance(chain, ast.Attribute) and isinstance(chain.value, ast.Name) and chain.value.id in ("self", "cls"):
            return chain.attr
        chain = chain.value
    return last_attr


def long_lived_instances(model: SrcModel) -> Set[str]:
    """Classes of which an instance is created by a module-level or class-level assignment (a singleton that lives as
    long as the process), including their base classes (the methods that run on that instance)."""
    cached = getattr(model, "_long_lived_instances", None)
    if cached is not None:
        return cached
    out: Set[str] = set()
    sites: List[Tuple[object, ast.expr]] = []
    for mod in model.modules.values():
        for name, sts in mod.assigns.items():
            for st in sts:
                if getattr(st, "value", None) is not None:
                    sites.append((mod, st.value))
    for cls in model.classes.values():
        for _name, val in cls.assigns.items():
            if val is not None:
                sites.append((cls.module, val))
    for mod, val in sites:
        for n in ast.walk(val):
            if isinstance(n, ast.Lambda):
                continue
            if isinstance(n, ast.Call) and isinstance(n.func, (ast.Name, ast.Attribute)):
                res = model.resolve_expr(mod, n.func)
                if isinstance(res, ClassDef):
                    out.update(c for c in model.mro(res.qualname) if c in model.classes)
    model._long_lived_instances = out  # type: ignore[attr-defined]
    return out


def builds_objects(model: SrcModel, mod, v: Optional[ast.AST]) -> bool:
    """A module-level container (literal or comprehension) whose elements are model objects created by constructor calls or by
    repo factory functions annotated to return such a class."""
    if not isinstance(v, (ast.Dict, ast.List, ast.Tuple, ast.DictComp, ast.ListComp, ast.SetComp, ast.Call)):
        return False

    def mutable_class(c) -> bool:
        return isinstance(c, ClassDef) and not (model.is_enum(c) or "typing.NamedTuple" in model.mro(c.qualname)
                                                 or any("frozen=True" in norm(d) for d in c.node.decorator_list))

    for x in ast.walk(v):
        if isinstance(x, ast.Call) and isinstance(x.func, (ast.Name, ast.Attribute)):
            res = model.resolve_expr(mod, x.func)
            if mutable_class(res):
                return True
            if isinstance(res, FuncDef) and res.node.returns is not None and mutable_class(model._annotation_class(res.module, res.node.returns)):  # pylint:disable=protected-access
                return True
    return False


def holds_mutable_objects(model: SrcModel, mod, v: Optional[ast.AST]) -> bool:
    """Does the expression build lark Trees / model objects / nested containers (something a caller could edit in place)?"""
    if v is None:
        return False
    for x in ast.walk(v):
        if isinstance(x, ast.Call) and isinstance(x.func, (ast.Name, ast.Attribute)):
            res = model.resolve_expr(mod, x.func)
            last = (dotted(x.func) or "").split(".")[-1]
            if isinstance(res, FuncDef):
                ret_ = norm(res.node.returns) if res.node.returns is not None else ""
                if "Tree" in ret_ or (res.node.returns is not None and builds_objects(model, res.module, ast.Call(func=res.node.returns, args=[], keywords=[])) if isinstance(res.node.returns, (ast.Name, ast.Attribute)) else False):
                    return True  # a repo function annotated to return a lark Tree / a model object: evaluated once, shared afterwards
                continue
            if not last[:1].isupper():
                continue
            if last in ("MappingProxyType", "Final", "frozenset", "Token"):
                continue
            if isinstance(res, ClassDef) and (model.is_enum(res) or "typing.NamedTuple" in model.mro(res.qualname)
                                               or any("frozen=True" in norm(d) for d in res.node.decorator_list)):
                continue
            return True
    return False


SERVICE_BASES = ("ahbicht.content_evaluation.evaluators.Evaluator", "ahbicht.expressions.hints_provider.HintsProvider",
                 "ahbicht.expressions.package_expansion.PackageResolver", "ahbicht.content_evaluation.token_logic_provider.TokenLogicProvider")


def is_service_class(model: SrcModel, cls: ClassDef) -> bool:
    """Evaluators, providers, resolvers, token logic providers: one instance serves all (concurrent) evaluations."""
    mro = model.mro(cls.qualname)
    return any(b in mro for b in SERVICE_BASES) or cls.qualname in long_lived_instances(model) and not any(
        "attrs.define" in norm(d) or "dataclass" in norm(d) for d in cls.node.decorator_list)


def instantiation_sites(model: SrcModel) -> Dict[str, List[Tuple[FuncDef, ast.Call]]]:
    """class qualname -> constructor calls found inside function bodies (resolved through the module's names)."""
    cached = getattr(model, "_instantiation_sites", None)
    if cached is not None:
        return cached
    out: Dict[str, List[Tuple[FuncDef, ast.Call]]] = {}
    for fn in model.functions.values():
        for n in walk_shallow(fn.node):
            if isinstance(n, ast.Call) and isinstance(n.func, (ast.Name, ast.Attribute)):
                if isinstance(n.func, ast.Name) and n.func.id in fn.params:
                    continue
                res = model.resolve_expr(fn.module, n.func)
                if isinstance(res, ClassDef):
                    out.setdefault(res.qualname, []).append((fn, n))
    model._instantiation_sites = out  # type: ignore[attr-defined]
    return out


def per_call(model: SrcModel, cls: ClassDef, _seen: Optional[Set[str]] = None) -> bool:
    """Do the instances of `cls` live for one call only? Known per-call kinds (transformers, builders, attrs/dataclass
    values, exceptions) and private helper classes that are only ever constructed inside functions - unless an instance
    is kept by a module/class-level assignment or built in the __init__ of a long-lived object."""
    if cls.qualname in long_lived_instances(model):
        return False  # an instance is kept at module/class level: it is not dropped after one call
    mro = model.mro(cls.qualname)
    if any(b in mro for b in PER_CALL_BASES) or cls.qualname in PER_CALL_CLASSES or any(
            "attrs.define" in norm(d) or "dataclass" in norm(d) for d in cls.node.decorator_list) or "builtins.BaseException" in mro:
        return True
    if any(b in mro for b in SERVICE_BASES):
        return False
    _seen = (_seen or set()) | {cls.qualname}
    sites: List[Tuple[FuncDef, ast.Call]] = []
    for c in [cls, *model.subclasses(cls.qualname)]:
        sites.extend(instantiation_sites(model).get(c.qualname, []))
    if not sites:
        return False  # never constructed inside the package: lifetime unknown (user code keeps the instances)
    for fn, _call in sites:
        if fn.name in ("__init__", "__attrs_post_init__", "__post_init__", "__new__") and fn.cls is not None and fn.cls.qualname not in _seen \
                and not per_call(model, fn.cls, _seen):
            return False  # built while a long-lived object is initialised: it may be kept by that object
    return True


def module_level_mutables(model: SrcModel, mod) -> Dict[str, ast.expr]:
    """module-level names bound to something mutable / an object (not a plain constant, function, class, compiled regex)."""
    out: Dict[str, ast.expr] = {}
    for name, sts in mod.assigns.items():
        for st in sts:
            v = assigned_expr(st, name) or st.value
            if v is None or isinstance(v, ast.Constant):
                continue
            out[name] = v
    return out


def local_names(fn: FuncDef) -> Set[str]:
    names = set(fn.params)
    declared_global: Set[str] = set()
    for n in walk_shallow(fn.node):
        if isinstance(n, ast.Global):
            declared_global.update(n.names)
    for n in walk_shallow(fn.node):
        if isinstance(n, ast.Name) and isinstance(n.ctx, ast.Store) and n.id not in declared_global:
            names.add(n.id)
        elif isinstance(n, ast.ExceptHandler) and n.name:
            names.add(n.name)
        elif isinstance(n, (ast.FunctionDef, ast.AsyncFunctionDef)):
            names.add(n.name)
    cur = fn.parent
    while cur is not None:
        names.update(local_names(cur))
        cur = cur.parent
    return names


def hidden_state_sites(model: SrcModel, fn: FuncDef) -> List[Tuple[str, ast.AST, str]]:
    """[(kind, node, description)] for one function."""
    out: List[Tuple[str, ast.AST, str]] = []
    mod = fn.module
    mutables = module_level_mutables(model, mod)
    locals_ = local_names(fn)

    def is_module_var(name: Optional[str]) -> bool:
        if name is None or name in locals_:
            return False
        if name in mutables:
            return True
        res = model.resolve_name(mod, name)
        return isinstance(res, tuple) and res[0] == "modvar" and not isinstance(model.module_constant(res[1], res[2]), ast.Constant)

    own_locals = set(fn.params)
    for n_ in walk_shallow(fn.node):
        if isinstance(n_, ast.Name) and isinstance(n_.ctx, ast.Store):
            own_locals.add(n_.id)
    enclosing: Set[str] = set()
    cur_ = fn.parent
    while cur_ is not None:
        enclosing |= set(cur_.params)
        for n_ in walk_shallow(cur_.node):
            if isinstance(n_, ast.Name) and isinstance(n_.ctx, ast.Store):
                enclosing.add(n_.id)
        cur_ = cur_.parent
    enclosing -= own_locals
    for n_ in walk_shallow(fn.node):
        if isinstance(n_, ast.Nonlocal):
            for nm in n_.names:
                out.append(("closure-store", n_, f"rebinds the enclosing function's variable '{nm}' (state kept between calls of the inner function)"))
        tg: List[ast.AST] = []
        if isinstance(n_, ast.Assign):
            tg = list(n_.targets)
        elif isinstance(n_, (ast.AugAssign, ast.AnnAssign)) and getattr(n_, "value", None) is not None:
            tg = [n_.target]
        for t_ in tg:
            if isinstance(t_, (ast.Attribute, ast.Subscript)) and _root_name(t_) in enclosing:
                out.append(("closure-store", n_, f"stores into '{_root_name(t_)}', a variable of the enclosing function that outlives the call: {norm(t_, 70)}"))
        if isinstance(n_, ast.Call) and isinstance(n_.func, ast.Attribute) and n_.func.attr in MUTATORS and _root_name(n_.func.value) in enclosing:
            out.append(("closure-store", n_, f"mutates '{_root_name(n_.func.value)}', a variable of the enclosing function that outlives the call: {norm(n_, 70)}"))
    # a module-level iterator object (zip/map/filter/generator ...) is consumed by the first call that iterates it
    for n_ in walk_shallow(fn.node):
        if isinstance(n_, ast.Name) and isinstance(n_.ctx, ast.Load) and n_.id not in locals_ and n_.id in mutables:
            v_ = mutables[n_.id]
            if isinstance(v_, ast.GeneratorExp) or (isinstance(v_, ast.Call) and (dotted(v_.func) or "").split(".")[-1] in ONE_SHOT_FACTORIES
                                                    and (dotted(v_.func) or "").split(".")[0] in ("zip", "map", "filter", "iter", "reversed", "enumerate", "itertools")):
                out.append(("module-iterator", n_, f"uses the module-level iterator '{n_.id}' = {norm(v_, 60)}: it is exhausted after its first use, later calls see nothing"))
    for d in fn.node.decorator_list:
        name = dotted(d.func if isinstance(d, ast.Call) else d) or norm(d)
        if name.split(".")[-1] in MEMO_DECORATORS and fn.qualname not in ALLOWED_MEMO:
            out.append(("memo", d, f"memoising decorator @{name}"))
    long_lived = fn.cls is not None and not per_call(model, fn.cls) and fn.name not in ("__init__", "__new__", "__post_init__", "__attrs_post_init__")
    for n in walk_shallow(fn.node):
        if isinstance(n, ast.Global):
            for name in n.names:
                out.append(("global", n, f"rebinds module variable '{name}' via global"))
        targets: List[ast.AST] = []
        if isinstance(n, ast.Assign):
            targets = list(n.targets)
        elif isinstance(n, (ast.AugAssign, ast.AnnAssign)) and getattr(n, "value", None) is not None:
            targets = [n.target]
        elif isinstance(n, ast.Delete):
            targets = list(n.targets)
        for t in targets:
            for tt in (t.elts if isinstance(t, (ast.Tuple, ast.List)) else [t]):
                if isinstance(tt, (ast.Attribute, ast.Subscript)):
                    root = _root_name(tt)
                    if is_module_var(root):
                        out.append(("module-store", n, f"stores into module-level object '{root}': {norm(tt, 80)}"))
                    elif root in ("self", "cls") and long_lived:
                        out.append(("self-store", n, f"stores into '{norm(tt, 80)}' of a long-lived {fn.cls.name} instance outside __init__"))
                    elif root is not None and root not in locals_:
                        res = model.resolve_name(mod, root)
                        if isinstance(res, ClassDef):
                            out.append(("class-store", n, f"stores into class attribute {norm(tt, 80)}"))
                    elif root is not None and root not in ("self", "cls") and isinstance(tt, ast.Attribute):
                        # an attribute of an object this function did not create: a provider / evaluator / resolver handed in or looked up
                        owner = tt.value
                        ocls = model.value_class(fn, owner)
                        if ocls is not None and is_service_class(model, ocls):
                            out.append(("foreign-store", n, f"stores into '{norm(tt, 80)}', an attribute of a long-lived {ocls.name} object shared by all evaluations"))
        if isinstance(n, ast.Call) and isinstance(n.func, ast.Attribute) and n.func.attr in MUTATORS:
            root = _root_name(n.func.value)
            if is_module_var(root):
                out.append(("module-mutate", n, f"mutates module-level object '{root}': {norm(n, 80)}"))
            elif root in ("self", "cls") and long_lived and isinstance(n.func.value, (ast.Attribute, ast.Subscript)):
                out.append(("self-mutate", n, f"mutates '{norm(n.func.value, 60)}' of a long-lived {fn.cls.name} instance: {norm(n, 80)}"))
        # a container kept in a *class-level* attribute (one per process, shared by all - also short-lived - instances)
        # that is filled or edited through self/cls: a cache that outlives the call (C10-r2)
        if fn.cls is not None and fn.name not in ("__init__", "__new__"):
            edited: Optional[ast.AST] = None
            if isinstance(n, ast.Call) and isinstance(n.func, ast.Attribute) and n.func.attr in MUTATORS:
                edited = n.func.value
            elif isinstance(n, (ast.Assign, ast.AugAssign, ast.Delete)):
                for t in (n.targets if isinstance(n, (ast.Assign, ast.Delete)) else [n.target]):
                    if isinstance(t, ast.Subscript):
                        edited = t.value
            if edited is not None and _root_name(edited) in ("self", "cls"):
                attr = _is_self_attr(edited)
                ca = model.class_attr(fn.cls, attr) if attr else None
                builds_container = isinstance(ca, (ast.Dict, ast.List, ast.Set, ast.ListComp, ast.DictComp, ast.SetComp)) or (
                    isinstance(ca, ast.Call) and (dotted(ca.func) or "").split(".")[-1] in (
                        "dict", "list", "set", "defaultdict", "OrderedDict", "WeakKeyDictionary", "WeakValueDictionary", "deque", "Counter", "ChainMap"))
                rebound = attr is not None and any(
                    isinstance(t_, ast.Attribute) and t_.attr == attr and isinstance(t_.value, ast.Name) and t_.value.id == "self"
                    for c_ in model.mro(fn.cls.qualname) if c_ in model.classes
                    for m_ in model.classes[c_].methods.values() if m_.name in ("__init__", "__attrs_post_init__", "__post_init__")
                    for st_ in ast.walk(m_.node) if isinstance(st_, (ast.Assign, ast.AnnAssign))
                    for t_ in (st_.targets if isinstance(st_, ast.Assign) else [st_.target]))
                if builds_container and not rebound:
                    out.append(("class-mutate", n, f"edits the class-level container '{attr}' of {fn.cls.name} (one object shared by all instances and calls): {norm(n, 80)}"))
        if isinstance(n, ast.Return) and isinstance(n.value, ast.Name) and is_module_var(n.value.id):
            v = mutables.get(n.value.id)
            if isinstance(v, (ast.Call, ast.Dict, ast.List, ast.Set)):
                out.append(("shared-return", n, f"returns the module-level object '{n.value.id}' (one instance shared by all callers)"))
        # a module-level mutable object (repo model instance, dict/list literal) that escapes into a result
        if isinstance(n, (ast.Call, ast.Assign, ast.AnnAssign, ast.List, ast.Tuple, ast.Dict, ast.Set)):
            cands: List[ast.AST] = []
            if isinstance(n, ast.Call):
                callee = model.resolve_expr(mod, n.func) if isinstance(n.func, (ast.Name, ast.Attribute)) else None
                if isinstance(callee, (ClassDef, FuncDef)) or callee is None:
                    cands = [*n.args, *[k.value for k in n.keywords]]
                    if isinstance(n.func, ast.Attribute) and n.func.attr in ("get", "items", "keys", "values", "debug", "info", "warning", "log", "match", "fullmatch", "sub", "search"):
                        cands = []
            elif isinstance(n, (ast.Assign, ast.AnnAssign)):
                cands = [n.value] if n.value is not None else []
            elif isinstance(n, ast.Dict):
                cands = list(n.values)
            else:
                cands = list(n.elts)
            for c in cands:
                if isinstance(c, ast.Name) and is_module_var(c.id):
                    v = mutables.get(c.id)
                    vc = model.resolve_expr(mod, v.func) if isinstance(v, ast.Call) else None
                    immutable = isinstance(vc, ClassDef) and (model.is_enum(vc) or "typing.NamedTuple" in model.mro(vc.qualname) or any(
                        "frozen=True" in norm(d) for d in vc.node.decorator_list))
                    is_model_obj = isinstance(vc, ClassDef) and not immutable
                    if is_model_obj or isinstance(v, (ast.Dict, ast.List, ast.Set)):
                        out.append(("shared-escape", n, f"hands the module-level object '{c.id}' on ({norm(n, 70)}): one instance is shared by all results"))
        if isinstance(n, ast.Return) and isinstance(n.value, (ast.Subscript, ast.Attribute)) or \
                (isinstance(n, ast.Return) and isinstance(n.value, ast.Call) and isinstance(n.value.func, ast.Attribute) and n.value.func.attr == "get"):
            target = n.value.func.value if isinstance(n.value, ast.Call) else n.value
            root = _root_name(target)
            if is_module_var(root):
                v = mutables.get(root)
                holds_objects = builds_objects(model, mod, v) or isinstance(v, (ast.Dict, ast.List, ast.Tuple)) and any(
                    isinstance(x, ast.Call) and not isinstance(model.resolve_expr(mod, x.func), FuncDef) and (dotted(x.func) or "").split(".")[-1][:1].isupper()
                    and not (isinstance(model.resolve_expr(mod, x.func), ClassDef) and (
                        model.is_enum(model.resolve_expr(mod, x.func)) or "typing.NamedTuple" in model.mro(model.resolve_expr(mod, x.func).qualname)))
                    for x in ast.walk(v))
                if holds_objects:
                    out.append(("shared-return", n, f"returns an object stored in the module-level container '{root}' (one instance shared by all callers)"))
        # an object stored in a class-level attribute (one per process) handed out to the caller
        if fn.cls is not None and isinstance(n, ast.Return) and n.value is not None:
            target = n.value
            if isinstance(target, ast.Call) and isinstance(target.func, ast.Attribute) and target.func.attr == "get":
                target = target.func.value
            if isinstance(target, (ast.Subscript, ast.Attribute)) and _root_name(target) in ("self", "cls"):
                attr = _is_self_attr(target)
                ca = model.class_attr(fn.cls, attr) if attr else None
                set_in_init = attr is not None and any(
                    isinstance(t_, ast.Attribute) and t_.attr == attr and isinstance(t_.value, ast.Name) and t_.value.id == "self"
                    for c_ in model.mro(fn.cls.qualname) if c_ in model.classes
                    for m_ in model.classes[c_].methods.values() if m_.name in ("__init__", "__attrs_post_init__", "__post_init__")
                    for st_ in ast.walk(m_.node) if isinstance(st_, (ast.Assign, ast.AnnAssign))
                    for t_ in (st_.targets if isinstance(st_, ast.Assign) else [st_.target]))
                if ca is not None and not set_in_init and holds_mutable_objects(model, fn.cls.module, ca):
                    out.append(("shared-return", n, f"returns an object stored in the class-level attribute '{attr}' of {fn.cls.name} (one instance shared by all callers): {norm(n.value, 70)}"))
        if isinstance(n, ast.Return) and isinstance(n.value, ast.IfExp):
            for side in (n.value.body, n.value.orelse):
                if isinstance(side, ast.Name) and is_module_var(side.id) and isinstance(mutables.get(side.id), (ast.Call, ast.Dict, ast.List)):
                    out.append(("shared-return", n, f"returns the module-level object '{side.id}' (one instance shared by all callers)"))
    return out


def check_path(ctx, rule: str, roots: Iterable[str], what: str, extra_classes: Iterable[str] = ()) -> None:
    """Every function reachable from `roots` (plus all methods of `extra_classes` and their subclasses) is free of
    hidden state. One obligation per function."""
    model: SrcModel = ctx.model
    todo: Dict[str, List[str]] = {}
    for r in roots:
        fn = model.func(r)
        for q, path in model.reachable(fn).items():
            todo.setdefault(q, path)
    for cname in extra_classes:
        for c in [model.cls(cname), *model.subclasses(cname)]:
            for m in c.methods.values():
                todo.setdefault(m.qualname, [m.qualname])
                for q, path in model.reachable(m).items():
                    todo.setdefault(q, path)
    ctx.require(len(todo) >= 2, f"{rule}: no function reachable from {list(roots)}")
    ctx.units[f"{rule}.functions"] = len(todo)
    for q, path in sorted(todo.items()):
        fn = model.functions[q]
        if fn.module.name.endswith("_vstat_stub"):
            continue
        sites = hidden_state_sites(model, fn)
        ctx.count()
        if not sites:
            ctx.ob(rule, q, True, "")
            continue
        for kind, node, desc in sites:
            ctx.ob(rule, f"{q}::{kind}::{norm(node, 60)}", False,
                   f"{what}: {fn.qualname} {desc} (call path {' -> '.join(p.rsplit('.', 1)[-1] for p in path)})",
                   file=fn.file, line=getattr(node, "lineno", fn.node.lineno), function=fn.qualname)
    # positive control: the analysis must see a planted cache (guards against a vacuous pass)
    control = (
        "_cache = {}\n"
        "class Holder:\n"
        "    def get(self, key):\n"
        "        if key in _cache:\n"
        "            return _cache[key]\n"
        "        _cache[key] = key\n"
        "        self.last = key\n"
        "        return key\n"
    )
    ov = dict(model.overlay)
    ov["src/ahbicht/_vstat_control.py"] = control
    cm = SrcModel(model.repo, overlay=ov)
    found = {k for k, _, _ in hidden_state_sites(cm, cm.func("ahbicht._vstat_control.Holder.get"))}
    ctx.require({"module-store", "self-store"} <= found, f"{rule}: positive control not recognised ({found})")


def check_models_and_transformers(ctx, rule: str, what: str) -> None:
    """Two structural necessary conditions for history-independent evaluation:
    * no attrs/dataclass field has a *mutable object* as default (one instance would be shared by all instances and an
      in-place edit of one result would show up in every later result);
    * every Lark transformer of the repository derives from lark.Transformer (builds fresh nodes, lemma L3) and not from
      an in-place / visitor variant that overwrites the children of the tree it is given (re-evaluating a parsed tree
      would then see the previous evaluation's nodes)."""
    model: SrcModel = ctx.model
    n = 0
    for cls in model.classes.values():
        if cls.module.name.endswith("_vstat_stub"):
            continue
        if any("attrs.define" in norm(d) or "attr.s" in norm(d) or "dataclass" in norm(d) for d in cls.node.decorator_list):
            for st in cls.node.body:
                if isinstance(st, ast.AnnAssign) and st.value is not None and isinstance(st.target, ast.Name):
                    default = st.value
                    if isinstance(default, ast.Call) and (dotted(default.func) or "").split(".")[-1] in ("field", "ib"):
                        default = next((kw.value for kw in default.keywords if kw.arg == "default"), None)
                    n += 1
                    bad = isinstance(default, (ast.List, ast.Dict, ast.Set)) or (
                        isinstance(default, ast.Call) and isinstance(model.resolve_expr(cls.module, default.func), ClassDef)
                        and not model.is_enum(model.resolve_expr(cls.module, default.func)))
                    if bad:
                        ctx.ob(rule, f"{cls.qualname}.{st.target.id}::mutable-default", False,
                               f"{what}: the default of {cls.name}.{st.target.id} is the mutable object {norm(default, 60)} - one instance is shared by every {cls.name}",
                               file=cls.file, line=st.lineno)
        bases = model.mro(cls.qualname)
        larkish = [b for b in bases if b.startswith("lark.") and any(k in b for k in ("Transformer", "Visitor", "Interpreter"))]
        if larkish:
            n += 1
            ok = all(b in ("lark.Transformer", "lark.visitors.Transformer") for b in larkish)
            ctx.ob(rule, f"{cls.qualname}::transformer-base", ok,
                   f"{what}: {cls.name} derives from {larkish}: an in-place/visitor variant overwrites the children of the tree it is given instead of building fresh nodes (L3)",
                   file=cls.file, line=cls.node.lineno)
    ctx.count(n)
