"""Engine E (part 2): the two Lark grammars, read from the source by `ast` and compiled by Lark's own front-end
(`lark.load_grammar`) - no parser is instantiated, no input is parsed."""
from __future__ import annotations

import ast
import warnings
from dataclasses import dataclass, field
from typing import Dict, List, Optional, Tuple

from . import regexlang
from .report import AnalysisError, Unsupported
from .srcmodel import Module, SrcModel, dotted, norm

COND_MOD = "ahbicht.expressions.condition_expression_parser"
AHB_MOD = "ahbicht.expressions.ahb_expression_parser"


@dataclass
class Rule:
    origin: str
    expansion: List[Tuple[str, bool, bool]]  # (symbol name, is terminal, filtered out of the tree)
    alias: Optional[str]
    order: int
    expand1: bool
    priority: Optional[int]
    keep_all_tokens: bool


@dataclass
class Terminal:
    name: str
    regexp: str
    priority: int
    parsed: Optional[regexlang.Parsed] = None


@dataclass
class Grammar:
    module: Module
    text: str
    start: str
    rules: List[Rule]
    terminals: Dict[str, Terminal]
    ignore: List[str]
    lark_kwargs: Dict[str, object]
    parser_var: str
    lark_call: ast.Call
    grammar_assign: ast.AST
    discovery: Optional[Dict[str, object]] = None

    def rules_of(self, origin: str) -> List[Rule]:
        return sorted([r for r in self.rules if r.origin == origin], key=lambda r: r.order)

    def term(self, name: str) -> Terminal:
        if name not in self.terminals:
            raise AnalysisError(f"terminal {name} not found in the grammar of {self.module.name}")
        t = self.terminals[name]
        if t.parsed is None:
            t.parsed = regexlang.parse(t.regexp, int(self.lark_kwargs.get("g_regex_flags", 0) or 0))
        return t


def _const_str(model: SrcModel, mod: Module, expr: ast.expr) -> str:
    if isinstance(expr, ast.Constant) and isinstance(expr.value, str):
        return expr.value
    if isinstance(expr, ast.Name):
        val = model.module_constant(mod, expr.id)
        if val is None:
            raise AnalysisError(f"{mod.name}.{expr.id} is not bound exactly once at module level")
        return _const_str(model, mod, val)
    if isinstance(expr, ast.BinOp) and isinstance(expr.op, ast.Add):
        return _const_str(model, mod, expr.left) + _const_str(model, mod, expr.right)
    if isinstance(expr, ast.JoinedStr) and all(isinstance(v, ast.Constant) for v in expr.values):
        return "".join(v.value for v in expr.values)
    raise Unsupported(f"grammar text is not a constant string: {norm(expr)}")


PARSE_FUNCS = {COND_MOD: "parse_condition_expression_to_tree", AHB_MOD: "parse_ahb_expression_to_single_requirement_indicator_expressions"}


def _sentinel_tree(modname: str):
    """What the intercepted Lark parser 'returns': a big, deep tree in the shape of the module's real output (long
    chains of one operator with other operators inside, juxtapositions, packages; three parts for the AHB parser), so that
    any post-processing of the parse result between `.parse` and `return` has something to act on."""
    from . import refsem
    from .evalmodel import ahb_tree, cond_tree, token, tree

    chain = " O ".join(f"[{i}]" for i in range(1, 31)) + " O [31] X [32] O " + " O ".join(f"[{i}] U [{i + 100}]" for i in range(33, 63)) + \
        " O ([63] X [64])[901] O [5P1..2] O [UB1] O [65][902] O ([66] U [67]) X ([68] O [69])"
    cond = cond_tree(refsem.parse_condition(chain))
    if modname == AHB_MOD:
        return ahb_tree([("mm", "Muss", " " + chain + " "), ("mm", "soll", "[1] U [2]"), ("po", "x", None)])
    return cond


def discover(model: SrcModel, modname: str, fname: Optional[str] = None) -> Dict[str, object]:
    """Abstract run of the module's parse function on an opaque input string with `lark.Lark(...)` and `<parser>.parse`
    intercepted, over **all paths** of the function: which parser objects were constructed (grammar text and options as
    *evaluated* values - however the module builds them), which one parsed, with which arguments, and whether the
    function hands back exactly what the parser returned (structurally; a copy is fine)."""
    from .fdai import Interp
    from .fdvalues import FuncVal, Obj, Opaque, PyRaise, StrT, explore

    fname = fname or PARSE_FUNCS[modname]
    fn = model.func(f"{modname}.{fname}")

    def shape(v):
        if isinstance(v, Obj) and v.cls == "lark.Tree":
            return ("T", v.fields.get("data"), tuple(shape(c) for c in (v.fields.get("children") or [])))
        if isinstance(v, Obj) and v.cls == "lark.Token":
            return ("t", v.fields.get("type"), v.fields.get("value"))
        return repr(v)

    def run(ch, concrete=None):
        it = Interp(model, ch)
        parsers: List[Dict[str, object]] = []
        calls: List[Dict[str, object]] = []
        sentinel = _sentinel_tree(modname)
        want = shape(sentinel)

        def make_parser(_it, args, kwargs):
            idx = len(parsers)
            parsers.append({"grammar": args[0] if args else kwargs.get("grammar"), "kwargs": {k: v for k, v in kwargs.items() if k != "grammar"}, "extra_args": list(args[1:])})
            return Opaque(f"larkparser#{idx}", kind="lark.Lark", truthy=True, not_none=True)

        def opaque_call(_it, func, args, kwargs):
            if func.label.startswith("larkparser#") and func.label.endswith(".parse"):
                calls.append({"parser": int(func.label[len("larkparser#"):-len(".parse")]), "args": list(args), "kwargs": dict(kwargs)})
                return sentinel
            raise Unsupported(f"call of {func.label}")

        it.ext_handlers["lark.Lark"] = make_parser
        it.ext_handlers["opaque-call"] = opaque_call
        arg = concrete if concrete is not None else StrT((Opaque("input"),))
        try:
            res = it.call(FuncVal(fn=fn, module=fn.module), [arg], {}, None, None)
            raised = None
        except PyRaise as err:
            res, raised = None, err.exc.cls
        good_call = len(calls) == 1 and len(calls[0]["args"]) == 1 and (calls[0]["args"][0] is arg or (concrete is not None and calls[0]["args"][0] == arg)) and not calls[0]["kwargs"]
        return {"parsers": parsers, "calls": calls, "arg": arg, "raised": raised, "good_call": good_call,
                "returns_parse_result": raised is None and shape(res) == want,
                "calls_text": [(repr(c["args"])[:80], sorted(c["kwargs"])) for c in calls]}

    try:
        paths = [out for _trace, out in explore(run, max_paths=64)]
    except Unsupported as err:
        # the function inspects the characters of its argument (length checks, scans ...): decide it on concrete strings instead
        long_ = " u ".join(f"([{i}] O [{i + 1}] x [{i + 2}])" for i in range(1, 40, 3)) + " X [77] o [78] U [79][901] ∧ [80] ∨ [81]"
        # ... including shapes a textual "simplification" before parsing would rewrite: doubled brackets that are not a
        # redundant pair, repeated keys, packages, time conditions and every operator spelling (C01-r2)
        shapes = ["[5]U(([1]O[2])X([3]O[4]))", "(([1]))U((([2])))", "[1]U[1]U[1]O[1]", "[10P1..5]U[UB1]∧[2]⊻[3]∨[4]", "[1][501]U([2][902])"]
        texts = ["[1] U [2]", "[1]u[2]o[3]", long_, long_.replace(" ", "")] + shapes if modname == COND_MOD else \
            ["Muss [1] U [2]", "muss[1]", "Muss " + long_ + " Soll [2] Kann", "X" + long_.replace(" ", "")] + \
            ["Muss" + shapes[0] + "Soll[2]Kann", "X" + shapes[1], "muss[1]U[1]soll[1]kann[1]", "O" + shapes[3], "Muss " + shapes[4] + " Kann"]
        paths = []
        try:
            for t in texts:
                paths.extend(out for _trace, out in explore(lambda ch, t=t: run(ch, t), max_paths=64))
        except Unsupported as err2:
            raise Unsupported(f"{fn.qualname}: {err}; on concrete strings: {err2}") from err2
    if not paths:
        raise AnalysisError(f"{fn.qualname}: no path of the parse function could be explored")
    raised = [p["raised"] for p in paths if p["raised"]]
    if raised and len(raised) == len(paths):
        raise AnalysisError(f"{fn.qualname} raises {raised[0]} on a string the Lark parser accepts")
    first = next(p for p in paths if not p["raised"])
    return {"fn": fn, "arg": first["arg"], "parsers": first["parsers"], "calls": first["calls"], "paths": paths,
            "good_call": all(p["good_call"] and not p["raised"] for p in paths),
            "returns_parse_result": all(p["returns_parse_result"] for p in paths)}


def load(model: SrcModel, modname: str) -> Grammar:
    """The grammar and the Lark options of the parser object the module's parse function uses (found by `discover`;
    the syntactic form `X = Lark(<grammar>, ...)` is only consulted for positions), compiled by Lark's own front-end."""
    mod = model.module(modname)
    d = discover(model, modname)
    used = sorted({c["parser"] for c in d["calls"]})
    if len(used) != 1:
        raise AnalysisError(f"{modname}.{PARSE_FUNCS[modname]}: expected one Lark parser object to parse the argument, found {len(used)}")
    info = d["parsers"][used[0]]
    text = info["grammar"]
    if not isinstance(text, str):
        raise Unsupported(f"{modname}: the grammar passed to Lark() does not evaluate to a literal string: {text!r}")
    if info["extra_args"]:
        raise Unsupported(f"{modname}: Lark() with extra positional arguments")
    kwargs: Dict[str, object] = {}
    for k, v in info["kwargs"].items():
        if not (v is None or isinstance(v, (str, int, bool, float)) or (isinstance(v, (list, tuple)) and all(isinstance(x, str) for x in v))):
            raise Unsupported(f"{modname}: Lark option {k} does not evaluate to a literal: {v!r}")
        kwargs[k] = v
    # positions (best effort)
    var, call, gassign = PARSE_FUNCS[modname], None, None
    for name, sts in mod.assigns.items():
        for st in sts:
            v = st.value
            if isinstance(v, ast.Call) and (dotted(v.func) or "").split(".")[-1] == "Lark":
                var, call = name, v
                if v.args and isinstance(v.args[0], ast.Name) and v.args[0].id in mod.assigns:
                    gassign = mod.assigns[v.args[0].id][0]
                gassign = gassign or st
    fn_node = d["fn"].node
    if call is None:
        call = next((n for f_ in mod.functions.values() for n in ast.walk(f_.node) if isinstance(n, ast.Call) and (dotted(n.func) or "").split(".")[-1] == "Lark"), None)
    if call is None:
        call = ast.copy_location(ast.Call(func=ast.Name(id="Lark", ctx=ast.Load()), args=[], keywords=[]), fn_node)
    gassign = gassign or fn_node
    start = kwargs.get("start", "start")
    if not isinstance(start, str):
        raise Unsupported(f"{modname}: several start symbols")
    import lark
    from lark.load_grammar import load_grammar

    try:
        with warnings.catch_warnings():
            warnings.simplefilter("ignore")
            g, _ = load_grammar(text, f"<{modname}>", None, False)
            terms, rules, ignore = g.compile([start], set())
    except lark.exceptions.LarkError as err:
        raise AnalysisError(f"{modname}: the grammar does not compile: {err}") from err
    rr = [Rule(origin=r.origin.name, expansion=[(s.name, s.is_term, bool(getattr(s, "filter_out", False))) for s in r.expansion],
               alias=r.alias, order=r.order, expand1=bool(r.options.expand1), priority=r.options.priority,
               keep_all_tokens=bool(r.options.keep_all_tokens)) for r in rules]
    tt = {t.name: Terminal(name=t.name, regexp=t.pattern.to_regexp(), priority=t.priority) for t in terms}
    return Grammar(module=mod, text=text, start=start, rules=rr, terminals=tt, ignore=list(ignore), lark_kwargs=kwargs,
                   parser_var=var, lark_call=call, grammar_assign=gassign, discovery=d)


def effective_options(g: Grammar) -> Dict[str, object]:
    """Lark's defaults (lemma L2) applied to the constructor arguments."""
    parser = g.lark_kwargs.get("parser", "earley")
    lexer = g.lark_kwargs.get("lexer", "auto")
    if lexer == "auto":
        lexer = {"earley": "dynamic", "lalr": "contextual", "cyk": "basic"}.get(parser, "?")
    ambiguity = g.lark_kwargs.get("ambiguity", "auto")
    if ambiguity == "auto":
        ambiguity = "resolve"
    return {"parser": parser, "lexer": lexer, "ambiguity": ambiguity, "priority": g.lark_kwargs.get("priority", "auto"),
            "keep_all_tokens": g.lark_kwargs.get("keep_all_tokens", False),
            "maybe_placeholders": g.lark_kwargs.get("maybe_placeholders", True),
            "other": {k: v for k, v in g.lark_kwargs.items() if k not in ("parser", "lexer", "ambiguity", "start", "priority", "keep_all_tokens", "maybe_placeholders")}}


HANDLED_OPTIONS = {"parser", "lexer", "ambiguity", "start", "priority", "keep_all_tokens", "g_regex_flags", "maybe_placeholders"}
HARMLESS_OPTIONS = {"debug", "propagate_positions", "source_path", "import_paths"}  # do not influence data/children of the tree
HARMFUL_OPTIONS = {
    "transformer": "the parser applies a transformer: the parse function no longer returns the grammar's tree",
    "tree_class": "the parse function returns another tree class",
    "postlex": "a post-lexer rewrites the token stream",
    "edit_terminals": "terminals are edited after loading the grammar",
    "lexer_callbacks": "lexer callbacks can rewrite or drop tokens",
    "ordered_sets": "with ordered_sets=False the Earley parser's choice among ambiguous derivations depends on set iteration "
                    "order (object addresses): the tree is no longer a function of the string and lemma L1 does not apply",
    "use_bytes": "the parser works on bytes",
}


def option_findings(g: Grammar) -> List[Tuple[str, object, str]]:
    """Lark options (as evaluated) that differ from Lark's defaults and change what the parse function returns.
    Options this analysis has no rule for raise AnalysisError (undecided) instead of passing silently."""
    from lark.lark import LarkOptions

    out = []
    for k, v in g.lark_kwargs.items():
        if k in HANDLED_OPTIONS or k in HARMLESS_OPTIONS:
            continue
        if k in LarkOptions._defaults and LarkOptions._defaults[k] == v:  # pylint:disable=protected-access
            continue
        if k in HARMFUL_OPTIONS:
            out.append((k, v, HARMFUL_OPTIONS[k]))
        else:
            raise AnalysisError(f"{g.module.name}: Lark option {k}={v!r} is outside what lemmas L1/L2 were established for")
    return out


def report_options(ctx, rule: str, g: Grammar, file: str, skip=()) -> None:
    bad = [b for b in option_findings(g) if b[0] not in skip]
    for k, v, why in bad:
        ctx.ob(rule, f"{g.module.name.rsplit('.', 1)[-1]}::lark-option:{k}", False, f"Lark option {k}={v!r}: {why}", file=file, line=g.lark_call.lineno)
    ctx.ob(rule, f"{g.module.name.rsplit('.', 1)[-1]}::lark-options", True, "")


def token_productions(g: Grammar, classify) -> Dict[str, set]:
    """Productions with terminals mapped through `classify(terminal name) -> class name`: origin -> {tuple(symbols)}."""
    out: Dict[str, set] = {}
    for r in g.rules:
        out.setdefault(r.origin, set()).add(tuple(classify(n) if is_t else n for (n, is_t, _f) in r.expansion))
    return out


def sentences(prods: Dict[str, set], start: str, max_len: int) -> set:
    """All terminal strings (tuples of token class names) of length <= max_len derivable from `start`."""
    nts = set(prods)
    lang: Dict[str, Dict[int, set]] = {a: {n: set() for n in range(max_len + 1)} for a in nts}
    changed = True
    while changed:
        changed = False
        for a, alts in prods.items():
            for alt in alts:
                # combine lengths
                partial = {0: {()}}
                for sym in alt:
                    nxt: Dict[int, set] = {}
                    for ln, strs in partial.items():
                        if sym in nts:
                            for l2, s2 in lang[sym].items():
                                if ln + l2 <= max_len and s2:
                                    bucket = nxt.setdefault(ln + l2, set())
                                    for x in strs:
                                        for y in s2:
                                            bucket.add(x + y)
                        elif ln + 1 <= max_len:
                            bucket = nxt.setdefault(ln + 1, set())
                            for x in strs:
                                bucket.add(x + (sym,))
                    partial = nxt
                for ln, strs in partial.items():
                    before = len(lang[a][ln])
                    lang[a][ln] |= strs
                    if len(lang[a][ln]) != before:
                        changed = True
    out = set()
    for n in range(max_len + 1):
        out |= lang[start][n]
    return out
