"""Abstract evaluation harness on top of engine D.

Runs the repository's evaluation pipeline (AhbExpressionTransformer -> requirement_constraint_evaluation ->
ConditionNodeBuilder -> RcEvaluator / HintsProvider / FcEvaluator -> transformers -> builders) *abstractly*: the ASTs of
the real functions are interpreted by engine D; only the outermost environment is supplied by the checker:
  * the injected TokenLogicProvider and its evaluators are instances of small stub subclasses (source in STUB_SRC,
    parsed into the source model as a virtual module) whose per-key answers come from a finite assignment;
  * the two Lark parse functions are summarised by the reference parser of refsem (C01/C02 decide that the grammars
    agree with it); Lark's Transformer.transform is modelled per lemma L3 in fdcalls.lark_transform.
"""
from __future__ import annotations

from typing import Any, Dict, List, Optional, Tuple

from . import refsem
from .fdai import Frame, Interp
from .fdvalues import ClassVal, EnumVal, FuncVal, Obj, Opaque, PyRaise, Ready, StrT
from .report import Unsupported
from .srcmodel import SrcModel
from .tables import CFV

STUB_MODULE = "ahbicht._vstat_stub"
STUB_PATH = "src/ahbicht/_vstat_stub.py"
STUB_SRC = '''
"""Checker-side stubs (never part of the repository): the outermost environment of an abstract evaluation."""
from ahbicht.content_evaluation.fc_evaluators import FcEvaluator
from ahbicht.content_evaluation.rc_evaluators import RcEvaluator
from ahbicht.expressions.hints_provider import HintsProvider
from ahbicht.expressions.package_expansion import PackageResolver
from datetime import timedelta

from ahbicht.content_evaluation.evaluationdatatypes import EvaluationContext
from ahbicht.models.condition_nodes import EvaluatedFormatConstraint
from ahbicht.models.mapping_results import PackageKeyConditionExpressionMapping
from vstat_ext import (vstat_astimezone, vstat_component, vstat_offset_equals, vstat_same_wallclock, vstat_text,
                       vstat_time_replace, vstat_unsupported)


class StubRcEvaluator(RcEvaluator):
    def _get_default_context(self):
        return EvaluationContext(scope=None)  # a fresh default context per call, as custom evaluators provide it

    def get_evaluation_method(self, condition_key):  # the public look-up hook of Evaluator
        return self.stub_methods.get(condition_key)


class StubFcEvaluator(FcEvaluator):
    def get_evaluation_method(self, condition_key):
        return self.stub_methods.get(condition_key)


class StubMethodRcEvaluator(RcEvaluator):
    """a custom evaluator in the documented style: one method per key, plus helpers whose names merely start alike"""

    def _get_default_context(self):
        return EvaluationContext(scope=None)

    def evaluate_7(self, evaluatable_data, context):
        return "seven"

    def evaluate_77(self, evaluatable_data, context):
        return "seventy-seven"

    def evaluate_7_legacy(self, evaluatable_data, context):
        return "helper"

    def evaluate_all(self, evaluatable_data, context):
        return "helper"

    def re_evaluate_7(self, evaluatable_data, context):
        return "helper"


class StubHintsProvider(HintsProvider):
    async def get_hint_text(self, condition_key):
        return self.table.get(condition_key)


class StubPackageResolver(PackageResolver):
    async def get_condition_expression(self, package_key):
        return PackageKeyConditionExpressionMapping(
            package_key=package_key, package_expression=self.table.get(package_key), edifact_format=self.edifact_format
        )


class StubTokenLogicProvider:
    def get_rc_evaluator(self, edifact_format, edifact_format_version):
        return self.rc

    def get_fc_evaluator(self, edifact_format, edifact_format_version):
        return self.fc

    def get_hints_provider(self, edifact_format, edifact_format_version):
        return self.hints

    def get_package_resolver(self, edifact_format, edifact_format_version):
        return self.packages


class AbstractDateTime:
    """An aware/naive datetime whose instant is unknown; only the zone it is expressed in is tracked."""

    def __init__(self, tzinfo, zone):
        self.tzinfo = tzinfo
        self.zone = zone
        self.year = vstat_component(zone, "year")
        self.month = vstat_component(zone, "month")
        self.day = vstat_component(zone, "day")
        self.hour = vstat_component(zone, "hour")
        self.minute = vstat_component(zone, "minute")
        self.second = vstat_component(zone, "second")

    def __sub__(self, other):
        return AbstractDateTime(self.tzinfo, "computed-from:" + self.zone)

    def __add__(self, other):
        return AbstractDateTime(self.tzinfo, "computed-from:" + self.zone)

    def astimezone(self, tz=None):
        return vstat_astimezone(self, tz)

    def time(self):
        return AbstractTime(self.zone)

    def timetz(self):
        return AbstractTime(self.zone)

    def isoformat(self, *args):
        return vstat_text("isoformat")

    def utcoffset(self):
        return AbstractOffset(self.zone)

    def replace(self, **kwargs):
        return vstat_unsupported("datetime.replace")


class AbstractTime:
    def __init__(self, zone):
        self.zone = zone
        self.hour = vstat_component(zone, "hour")
        self.minute = vstat_component(zone, "minute")
        self.second = vstat_component(zone, "second")
        self.microsecond = 0

    def __eq__(self, other):
        return vstat_same_wallclock(self, other)

    def __lt__(self, other):
        return vstat_component(self.zone, "time_of_day_minus_other") < 0

    def __le__(self, other):
        return vstat_component(self.zone, "time_of_day_minus_other") <= 0

    def __gt__(self, other):
        return vstat_component(self.zone, "time_of_day_minus_other") > 0

    def __ge__(self, other):
        return vstat_component(self.zone, "time_of_day_minus_other") >= 0

    def replace(self, **kwargs):
        return vstat_time_replace(self, kwargs)

    def __str__(self):
        return vstat_text("time")


class AbstractOffset:
    def __init__(self, zone):
        self.zone = zone

    def __eq__(self, other):
        return vstat_offset_equals(self, other)

    def total_seconds(self):
        return vstat_component(self.zone, "offset_seconds")

    def __bool__(self):
        return not vstat_offset_equals(self, timedelta(0))

    def __lt__(self, other):
        return vstat_component(self.zone, "offset_seconds") < 0

    def __gt__(self, other):
        return vstat_component(self.zone, "offset_seconds") > 0

    def __le__(self, other):
        return vstat_component(self.zone, "offset_seconds") <= 0

    def __ge__(self, other):
        return vstat_component(self.zone, "offset_seconds") >= 0

    def __abs__(self):
        return AbstractOffset(self.zone)

    def __neg__(self):
        return AbstractOffset(self.zone)

    def __str__(self):
        return vstat_text("offset")


def make_rc_method(result, is_async):
    if is_async:
        async def evaluate(evaluatable_data, context):
            return result
    else:
        def evaluate(evaluatable_data, context):
            return result
    return evaluate


def make_fc_method(table, is_async):
    """table: entered_input -> (fulfilled, message); '*' is the default entry"""
    if is_async:
        async def evaluate(entered_input):
            entry = table[entered_input] if entered_input in table else table["*"]
            return EvaluatedFormatConstraint(format_constraint_fulfilled=entry[0], error_message=entry[1])
    else:
        def evaluate(entered_input):
            entry = table[entered_input] if entered_input in table else table["*"]
            return EvaluatedFormatConstraint(format_constraint_fulfilled=entry[0], error_message=entry[1])
    return evaluate
'''

PARSE_COND = "ahbicht.expressions.condition_expression_parser.parse_condition_expression_to_tree"
PARSE_AHB = "ahbicht.expressions.ahb_expression_parser.parse_ahb_expression_to_single_requirement_indicator_expressions"
ALIAS = {"and": "and_composition", "or": "or_composition", "xor": "xor_composition", "then": "then_also_composition"}


def token(typ: str, value: str) -> Obj:
    return Obj("lark.Token", {"type": typ, "value": value})


def tree(data: str, children: List[Any]) -> Obj:
    return Obj("lark.Tree", {"data": data, "children": children})


def cond_tree(e) -> Obj:
    """lark tree of a reference AST, as the condition grammar emits it (rule names / aliases, brackets leave no node)."""
    if e[0] == "key":
        return tree("condition", [token("CONDITION_KEY", e[1])])
    if e[0] == "time":
        return tree("time_condition", [token("TIME_CONDITION_KEY", e[1])])
    if e[0] == "pkg":
        ch = [token("PACKAGE_KEY", e[1])]
        if e[2]:
            ch.append(token("REPEATABILITY", e[2]))
        return tree("package", ch)
    return tree(ALIAS[e[0]], [cond_tree(e[1]), cond_tree(e[2])])


def ahb_tree(parts: List[Tuple[str, str, Optional[Any]]], resolved: bool = True) -> Obj:
    """parts: [('mm'|'po', written indicator, condition AST | condition text | None)]"""
    children = []
    for kind, ind, cond in parts:
        tok = token("MODAL_MARK" if kind == "mm" else "PREFIX_OPERATOR", ind)
        if cond is None:
            children.append(tree("requirement_indicator", [tok]))
        else:
            c = cond_tree(cond) if not isinstance(cond, str) else token("CONDITION_EXPRESSION", cond)
            children.append(tree("single_requirement_indicator_expression", [tok, c]))
    return tree("ahb_expression", children)


def tree_to_ast(t: Any):
    """Inverse of cond_tree for abstract trees (used to compare resolver output with the reference)."""
    if not (isinstance(t, Obj) and t.cls == "lark.Tree"):
        return ("not-a-tree", repr(t)[:80])
    data = t.fields["data"]
    ch = t.fields["children"]
    if data == "condition":
        return ("key", ch[0].fields["value"])
    if data == "time_condition":
        return ("time", ch[0].fields["value"])
    if data == "package":
        return ("pkg", ch[0].fields["value"], ch[1].fields["value"] if len(ch) > 1 else None)
    inv = {v: k for k, v in ALIAS.items()}
    if data in inv and len(ch) == 2:
        return (inv[data], tree_to_ast(ch[0]), tree_to_ast(ch[1]))
    return ("tree", data, tuple(tree_to_ast(c) if isinstance(c, Obj) and c.cls == "lark.Tree" else repr(c) for c in ch))


def _syntax_error(it: Interp, msg: str):
    raise PyRaise(Obj("builtins.SyntaxError", {"args": (msg,)}))


def summary_parse_condition(it: Interp, func, args, kwargs):
    text = args[0] if args else kwargs.get("condition_expression")
    if not isinstance(text, str):
        if text is None or isinstance(text, (int, Obj)):
            _syntax_error(it, "not a string")
        raise Unsupported(f"parse of non-literal string {text!r}")
    try:
        return cond_tree(refsem.parse_condition(text))
    except refsem.RefSyntaxError as err:
        _syntax_error(it, f"condition expression: {text} {err}")


def summary_parse_ahb(it: Interp, func, args, kwargs):
    text = args[0] if args else kwargs.get("ahb_expression")
    if not isinstance(text, str):
        raise Unsupported(f"parse of non-literal string {text!r}")
    try:
        parts = refsem.parse_ahb(text)
    except refsem.RefSyntaxError as err:
        # the AHB grammar itself does not validate the condition parts: they are CONDITION_EXPRESSION tokens
        parts = _loose_ahb_split(text)
        if parts is None:
            _syntax_error(it, f"ahb expression: {text} {err}")
    return ahb_tree(parts)  # condition parts stay CONDITION_EXPRESSION tokens (text), as the AHB grammar emits them


def _loose_ahb_split(text: str):
    """Indicator structure only (the AHB grammar accepts any run of condition-expression characters as CE)."""
    import re as _re

    ce = r"(?!\BU\B)[\[\]\(\)U∧O∨X⊻\d\sP\.UB]+"
    m = _re.fullmatch(rf"(?i:(?P<po>[XOU])(?P<ce>{ce}))", text)
    if m:
        return [("po", m.group("po"), m.group("ce"))]
    parts = []
    pos = 0
    rx = _re.compile(rf"(?i:(?P<mm>(?a:M(uss)?|S(oll)?|K(ann)?))(?P<ce>{ce})?)")
    while pos < len(text):
        m = rx.match(text, pos)
        if not m or m.end() == pos:
            return None
        if m.group("ce") is None and m.end() != len(text):
            return None
        parts.append(("mm", m.group("mm"), m.group("ce")))
        pos = m.end()
    return parts or None


def lark_parse(it: Interp, func: Opaque, args, kwargs):
    """Model of `<module-level Lark object>.parse(text)` (lemma L2): the reference parser of refsem decides acceptance;
    rejection raises UnexpectedCharacters / UnexpectedEOF, a non-str argument raises TypeError. The repository's own
    wrapper code around it (try/except, logging, lru_cache, tree_copy) is interpreted, not summarised."""
    label = func.label
    text = args[0] if args else kwargs.get("text")
    if not isinstance(text, str):
        if isinstance(text, (StrT, Opaque)):
            raise Unsupported(f"parse of non-literal string {text!r}")
        raise PyRaise(Obj("builtins.TypeError", {"args": ("expected str",)}))

    def reject(err):
        if getattr(err, "kind", "char") == "eof":
            raise PyRaise(Obj("lark.exceptions.UnexpectedEOF", {"args": (str(err),), "expected": [], "state": None}))
        raise PyRaise(Obj("lark.exceptions.UnexpectedCharacters", {"args": (str(err),), "char": "?", "pos_in_stream": 0, "line": 1, "column": 1, "allowed": []}))

    if label.startswith("larkparser:expression"):
        try:
            return cond_tree(refsem.parse_condition(text))
        except refsem.RefSyntaxError as err:
            reject(err)
    if label.startswith("larkparser:ahb_expression"):
        try:
            parts = refsem.parse_ahb(text)
        except refsem.RefSyntaxError as err:
            parts = _loose_ahb_split(text)
            if parts is None:
                reject(refsem.RefSyntaxError(str(err), "eof" if text == "" else "char"))
        return ahb_tree(parts)
    raise Unsupported(f"unknown Lark parser object {label}")


def install_lark_model(it: Interp) -> None:
    def make_parser(_it, args, kwargs):
        start = kwargs.get("start", "start")
        key = ("larkparser", start)
        if key not in it.attr_memo:
            it.attr_memo[key] = Opaque(f"larkparser:{start}", kind="lark.Lark", truthy=True, not_none=True)
        return it.attr_memo[key]

    it.ext_handlers["lark.Lark"] = make_parser
    prev = it.ext_handlers.get("opaque-call")

    def opaque_call(_it, func, args, kwargs):
        if func.label.startswith("larkparser:") and func.label.endswith(".parse"):
            return lark_parse(it, func, args, kwargs)
        if prev is not None:
            return prev(_it, func, args, kwargs)
        raise Unsupported(f"call of opaque value {func.label}")

    it.ext_handlers["opaque-call"] = opaque_call


class Harness:
    """One abstract evaluation environment (one assignment)."""

    def __init__(self, model: SrcModel, chooser=None, *, rc: Optional[Dict[str, str]] = None,
                 fc: Optional[Dict[str, Any]] = None, hints: Optional[Dict[str, Optional[str]]] = None,
                 packages: Optional[Dict[str, Optional[str]]] = None, async_keys: Tuple[str, ...] = (),
                 gather_order=None, extra_summaries=None, data_format=None):
        summaries = dict(extra_summaries or {})
        self.it = Interp(model, chooser, summaries=summaries, ext_handlers={"inject.instance": self._inject_instance})
        install_lark_model(self.it)
        if gather_order is not None:
            self.it.gather_order = gather_order
        self.model = model
        it = self.it
        stub = model.module(STUB_MODULE)
        logger = Opaque("logger", kind="logging.Logger", truthy=True)
        make_rc = FuncVal(fn=stub.functions["make_rc_method"], module=stub)
        make_fc = FuncVal(fn=stub.functions["make_fc_method"], module=stub)
        rc_methods = {k: it.call(make_rc, [it.enum(CFV, v), k in async_keys], {}, None, None) for k, v in (rc or {}).items()}
        fc_methods = {}
        for k, v in (fc or {}).items():
            table = v if isinstance(v, dict) else {"*": (v, None) if isinstance(v, bool) else tuple(v)}
            fc_methods[k] = it.call(make_fc, [table, k in async_keys], {}, None, None)
        self.rc_eval = Obj(f"{STUB_MODULE}.StubRcEvaluator", {"stub_methods": rc_methods, "_evaluation_methods": rc_methods, "logger": logger})
        self.fc_eval = Obj(f"{STUB_MODULE}.StubFcEvaluator", {"stub_methods": fc_methods, "_evaluation_methods": fc_methods, "logger": logger})
        self.hints = Obj(f"{STUB_MODULE}.StubHintsProvider", {"table": dict(hints or {}), "logger": logger})
        # the data that are being evaluated and the providers registered for them have one and the same format
        self.data_format = data_format if data_format is not None else Opaque("UTILMD", truthy=True, not_none=True)
        self.evaluatable_data = Opaque("injected:evaluatable_data", truthy=True, not_none=True)
        it.attr_memo[("injected", "evaluatable_data")] = self.evaluatable_data
        it.attr_memo[(self.evaluatable_data.oid, "edifact_format")] = self.data_format
        self.packages = Obj(f"{STUB_MODULE}.StubPackageResolver",
                            {"table": dict(packages or {}), "logger": logger, "edifact_format": self.data_format})
        self.provider = Obj(f"{STUB_MODULE}.StubTokenLogicProvider",
                            {"rc": self.rc_eval, "fc": self.fc_eval, "hints": self.hints, "packages": self.packages})

    def _inject_instance(self, it: Interp, args, kwargs):
        what = args[0]
        if isinstance(what, ClassVal) and what.name.endswith("TokenLogicProvider"):
            return self.provider
        raise Unsupported(f"inject.instance({what!r})")

    # entry points -------------------------------------------------------------------------------
    def call(self, qualname: str, *args, **kwargs):
        it = self.it
        res = it.call(it.funcval(qualname), list(args), kwargs, None, None)
        return it.await_(res, None, None) if hasattr(res, "awaited") or isinstance(res, Ready) else res

    def evaluate_ahb_tree(self, t: Obj):
        return self.call("ahbicht.expressions.ahb_expression_evaluation.evaluate_ahb_expression_tree", t)

    def requirement_evaluation(self, t_or_str):
        return self.call("ahbicht.expressions.requirement_constraint_expression_evaluation.requirement_constraint_evaluation", t_or_str)

    def format_evaluation(self, expr):
        return self.call("ahbicht.expressions.format_constraint_expression_evaluation.format_constraint_evaluation", expr)


def default_hints(keys) -> Dict[str, str]:
    return {k: f"Hinweis {k}" for k in keys if refsem.key_kind(k) == "hint"}


IS_VALID = "ahbicht.content_evaluation.is_valid_expression"


def run_is_valid(model: SrcModel, t_or_str, chooser=None, obs: Optional[dict] = None, schedule: str = "fwd"):
    """Abstract run of is_valid_expression with a setter that re-configures the stub evaluators from the generated
    ContentEvaluationResult. The setter is context-local, as its documentation demands of a real one (it writes a
    ContextVar): what it configures is visible in the task that called it and in tasks created afterwards from that
    context. Returns (result tuple | ('raise', cls), number of evaluations that were started). `obs` (optional) receives
    'configs' (ids of the configurations set) and 'lookups' ((evaluator, key, id of the configuration seen))."""
    h = Harness(model, chooser)
    it = h.it
    if schedule == "rev":
        it.gather_order = lambda n: list(reversed(range(n)))
    active = {"cfg": None}
    it.ctx_cells.extend([(h.rc_eval.fields, "_evaluation_methods"), (h.rc_eval.fields, "stub_methods"), (h.fc_eval.fields, "_evaluation_methods"),
                         (h.fc_eval.fields, "stub_methods"), (h.hints.fields, "table"), (active, "cfg")])
    if obs is not None:
        obs.setdefault("configs", [])
        obs.setdefault("lookups", [])
        for kind, cls_ in (("rc", "StubRcEvaluator"), ("fc", "StubFcEvaluator")):
            it.call_observers[f"{STUB_MODULE}.{cls_}.get_evaluation_method"] = (lambda a, k, kind=kind: obs["lookups"].append((kind, a[1] if len(a) > 1 else k.get("condition_key"), active["cfg"])))
        it.call_observers[f"{STUB_MODULE}.StubHintsProvider.get_hint_text"] = lambda a, k: obs["lookups"].append(("hint", a[1] if len(a) > 1 else k.get("condition_key"), active["cfg"]))
    stub = model.module(STUB_MODULE)
    make_rc = FuncVal(fn=stub.functions["make_rc_method"], module=stub)
    make_fc = FuncVal(fn=stub.functions["make_fc_method"], module=stub)
    counter = {"n": 0}

    def setter(it_, args, kwargs):
        cer = args[0]
        if not isinstance(cer, Obj):
            raise Unsupported(f"setter called with {cer!r}")
        counter["n"] += 1
        rcs = cer.fields.get("requirement_constraints") or {}
        fcs = cer.fields.get("format_constraints") or {}
        counter.setdefault("distinct", set()).add((tuple(sorted((k, repr(v)) for k, v in rcs.items())),
                                                   tuple(sorted((k, repr(v.fields.get("format_constraint_fulfilled"))) for k, v in fcs.items()))))
        h.rc_eval.fields["_evaluation_methods"] = h.rc_eval.fields["stub_methods"] = {k: it.call(make_rc, [v, False], {}, None, None) for k, v in rcs.items()}
        fm = {}
        for k, v in fcs.items():
            fm[k] = it.call(make_fc, [{"*": (v.fields.get("format_constraint_fulfilled"), v.fields.get("error_message"))}, False], {}, None, None)
        h.fc_eval.fields["_evaluation_methods"] = h.fc_eval.fields["stub_methods"] = fm
        h.hints.fields["table"] = dict(cer.fields.get("hints") or {})
        active["cfg"] = counter["n"]
        if obs is not None:
            obs["configs"].append(counter["n"])
        return None

    it.ext_handlers["vstat.setter"] = setter
    from .fdvalues import ExtVal

    try:
        res = h.call(IS_VALID, t_or_str, ExtVal("vstat.setter"))
    except PyRaise as err:
        return ("raise", err.exc.cls), counter["n"]
    return res, min(counter["n"], len(counter.get("distinct", ())))
