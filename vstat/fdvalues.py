"""Abstract values and the path chooser of engine D (finite-domain abstract interpreter)."""
from __future__ import annotations

import itertools
from dataclasses import dataclass, field
from typing import Any, Callable, Dict, List, Optional, Tuple

from .report import Unsupported

_ids = itertools.count(1)


@dataclass(frozen=True)
class EnumVal:
    cls: str  # qualified class name
    name: str
    value: Any

    def __repr__(self) -> str:
        return f"{self.cls.rsplit('.', 1)[-1]}.{self.name}"


class Obj:
    """Abstract instance of a (repo or external) class: class tag + field map; has identity."""

    def __init__(self, cls: str, fields: Optional[Dict[str, Any]] = None, tag: Optional[str] = None):
        self.cls = cls
        self.fields: Dict[str, Any] = dict(fields or {})
        self.oid = next(_ids)
        self.tag = tag  # driver-chosen label (e.g. 'left'), used in tables

    def __repr__(self) -> str:
        short = self.cls.rsplit(".", 1)[-1]
        inner = ", ".join(f"{k}={v!r}" for k, v in self.fields.items())
        return f"{short}({inner})"


class Opaque:
    """An unknown value. Branching on it forks the path (memoised per path and predicate)."""

    def __init__(self, label: str, kind: Optional[str] = None, truthy: Optional[bool] = None,
                 not_none: bool = False):
        self.label = label
        self.kind = kind  # qualified class name if known
        self.truthy = truthy  # fixed truthiness if known
        self.not_none = not_none
        self.oid = next(_ids)

    def __repr__(self) -> str:
        return f"?{self.label}"


@dataclass(frozen=True)
class StrT:
    """Abstract string: literal chunks and holes (Opaque / Obj reprs)."""

    parts: Tuple[Any, ...]

    def __repr__(self) -> str:
        return "".join(p if isinstance(p, str) else "{" + repr(p) + "}" for p in self.parts)

    def literal_text(self) -> str:
        return "".join(p for p in self.parts if isinstance(p, str))


def strt_concat(a: Any, b: Any) -> Any:
    pa = a.parts if isinstance(a, StrT) else (a,)
    pb = b.parts if isinstance(b, StrT) else (b,)
    parts: List[Any] = []
    for p in (*pa, *pb):
        if isinstance(p, str) and parts and isinstance(parts[-1], str):
            parts[-1] = parts[-1] + p
        elif p != "":
            parts.append(p)
    if all(isinstance(p, str) for p in parts):
        return "".join(parts)
    return StrT(tuple(parts))


@dataclass
class FuncVal:
    fn: Any  # srcmodel.FuncDef, or an ast.Lambda holder
    self_obj: Any = None
    env: Any = None  # enclosing Frame for closures
    lambda_node: Any = None
    module: Any = None
    raw: bool = False  # the undecorated function object (decorators are applied by Interp.bound_value)
    defaults: Any = None  # nested functions / lambdas: parameter defaults evaluated when the function object was created

    def __repr__(self) -> str:
        return f"<fn {getattr(self.fn, 'qualname', 'lambda')}>"


@dataclass(frozen=True)
class ClassVal:
    name: str  # qualified repo class or external dotted name

    def __repr__(self) -> str:
        return f"<class {self.name}>"


@dataclass(frozen=True)
class ExtVal:
    name: str  # dotted external name, e.g. 'asyncio.gather'

    def __repr__(self) -> str:
        return f"<ext {self.name}>"


@dataclass
class BoundExt:
    """Method of an external / builtin value, e.g. list.append, str.upper, logger.debug."""

    recv: Any
    attr: str


@dataclass
class CoroVal:
    """A coroutine object: an async function call that has not run yet."""

    func: FuncVal
    args: List[Any]
    kwargs: Dict[str, Any]
    awaited: bool = False
    oid: int = field(default_factory=lambda: next(_ids))
    task_ctx: Any = None  # context snapshot when the coroutine was wrapped in a task

    def __repr__(self) -> str:
        return f"<coro {getattr(self.func.fn, 'qualname', '?')}#{self.oid}>"


@dataclass
class GatherVal:
    items: List[Any]


@dataclass
class Ready:
    """An awaitable supplied by a rule's stub: awaiting it yields `value` (or raises `exc`)."""

    value: Any = None
    exc: Any = None


class PyRaise(Exception):
    """An exception raised by the interpreted code."""

    def __init__(self, exc: Obj):
        super().__init__(repr(exc))
        self.exc = exc


class PathAbort(Exception):
    """The current path is infeasible / pruned by the driver (e.g. an `assert` assumed true failed)."""


class Chooser:
    """Stateless-DFS nondeterminism: replays a script of choices, records the trace."""

    def __init__(self, script: List[int]):
        self.script = list(script)
        self.trace: List[Tuple[str, int, int]] = []
        self.memo: Dict[Any, int] = {}

    def choose(self, label: str, n: int, memo_key: Any = None) -> int:
        if memo_key is not None and memo_key in self.memo:
            return self.memo[memo_key]
        i = len(self.trace)
        c = self.script[i] if i < len(self.script) else 0
        if c >= n:
            raise Unsupported(f"chooser script out of range at {label}")
        self.trace.append((label, c, n))
        if memo_key is not None:
            self.memo[memo_key] = c
        return c


def explore(run: Callable[[Chooser], Any], max_paths: int = 20000) -> List[Tuple[List[Tuple[str, int, int]], Any]]:
    """Enumerate all paths of `run` by depth-first re-execution. Returns [(trace, outcome)]."""
    results = []
    script: List[int] = []
    for _ in range(max_paths):
        ch = Chooser(script)
        try:
            out = run(ch)
            results.append((ch.trace, out))
        except PathAbort:
            pass
        trace = list(ch.trace)
        while trace and trace[-1][1] + 1 >= trace[-1][2]:
            trace.pop()
        if not trace:
            return results
        script = [c for (_, c, _) in trace[:-1]] + [trace[-1][1] + 1]
    raise Unsupported(f"more than {max_paths} paths")


def one_shot(items) -> "Obj":
    """An iterator object (generator, map/filter/zip/reversed/enumerate object, lark's scan_values / iter_subtrees ...):
    it can be consumed once; a second iteration finds it exhausted."""
    return Obj("builtins.iterator", {"items": list(items), "pos": 0})


def is_one_shot(v) -> bool:
    return isinstance(v, Obj) and v.cls == "builtins.iterator"
