"""Calls, attribute access, builtins and library summaries of engine D (mixed into fdai.Interp)."""
from __future__ import annotations

import ast
from typing import Any, Dict, List, Optional

from .fdvalues import (is_one_shot, one_shot, BoundExt, ClassVal, CoroVal, EnumVal, ExtVal, FuncVal, GatherVal, Obj, Opaque, PyRaise, Ready,
                       StrT, strt_concat)
from .report import Unsupported
from .srcmodel import ClassDef, FuncDef, dotted, norm, walk_shallow

PASS_THROUGH_DECORATORS = ("singledispatch", "v_args", "staticmethod", "abstractmethod", "post_load", "pre_load", "post_dump",
                           "pre_dump", "inject.params", "params", "classmethod", "property")
LOGGER_METHODS = ("debug", "info", "warning", "error", "exception", "critical", "log", "setLevel")


class CallMixin:  # pylint:disable=too-many-public-methods
    # ------------------------------------------------------------------ decorators / injection
    def class_frame(self, cls: ClassDef):
        """Scope in which class-level assignments are evaluated: the class' own methods are visible by name."""
        from .fdai import Frame

        fr = Frame(None, cls.module, None, set())
        for cn in reversed(self.model.mro(cls.qualname)):
            c = self.model.classes.get(cn)
            if c is not None:
                for name, m in c.methods.items():
                    fr.vars[name] = FuncVal(fn=m, module=m.module)
        return fr

    def bind_class_attr(self, val: Any, inst: Any) -> Any:
        if isinstance(val, Obj) and val.cls == "functools.partialmethod":
            f = val.fields["func"]
            if isinstance(f, FuncVal) and f.fn is not None and inst is not None:
                f = FuncVal(fn=f.fn, self_obj=inst, module=f.module)
            return Obj("functools.partial", {"func": f, "args": list(val.fields["args"]), "kwargs": dict(val.fields["kwargs"])})
        return val

    def injected_params(self, fv: FuncVal) -> Dict[str, Any]:
        fn = fv.fn
        out: Dict[str, Any] = {}
        if fn is None:
            return out
        for d in fn.node.decorator_list:
            if isinstance(d, ast.Call) and (dotted(d.func) or "").endswith("params"):
                for kw in d.keywords:
                    if kw.arg:
                        key = ("injected", kw.arg)
                        if key not in self.attr_memo:
                            self.attr_memo[key] = Opaque(f"injected:{kw.arg}", truthy=True, not_none=True)
                        out[kw.arg] = self.attr_memo[key]
        return out

    def single_dispatch(self, fn: FuncDef, first_arg: Any) -> FuncDef:
        """functools.singledispatch: the implementation registered for the nearest class in the argument's MRO."""
        from .fdai import Frame

        registry: List[Any] = []
        for other in self.model.functions.values():
            if other.module is not fn.module and fn.name not in other.module.imports:
                continue
            for d in other.node.decorator_list:
                target = d.func if isinstance(d, ast.Call) else d
                if isinstance(target, ast.Attribute) and target.attr == "register" and (dotted(target.value) or "").split(".")[-1] == fn.name:
                    classes: List[Any] = []
                    if isinstance(d, ast.Call) and d.args:
                        classes = [self.eval(d.args[0], Frame(None, other.module, None, set()))]
                    else:
                        a = other.node.args.args
                        if a and a[0].annotation is not None:
                            classes = [self.eval(a[0].annotation, Frame(None, other.module, None, set()))]
                    for c in classes:
                        for cc in (c if isinstance(c, tuple) else (c,)):
                            if isinstance(cc, ClassVal):
                                registry.append((cc.name, other))
        vc = self.class_of(first_arg)
        if vc is None:
            raise Unsupported(f"singledispatch on {first_arg!r}")
        for cname in self.class_mro(vc):
            for rname, impl in registry:
                if rname == cname:
                    return impl
        return fn

    def has_active_decorators(self, fn: FuncDef) -> bool:
        for d in fn.node.decorator_list:
            name = dotted(d.func if isinstance(d, ast.Call) else d) or norm(d)
            if name.split(".")[-1] == "register" and isinstance(d.func if isinstance(d, ast.Call) else d, ast.Attribute):
                continue  # @dispatcher.register(...) leaves the function itself unchanged
            if not any(name == p or name.endswith("." + p) for p in PASS_THROUGH_DECORATORS):
                return True
        return False

    def bound_value(self, fn: FuncDef, func: FuncVal) -> Any:
        """The object bound to the function's name: its decorators applied bottom-up to the plain function (once per
        abstract run, as at definition time); for a method the result is then bound to the instance."""
        key = ("bound", fn.qualname, id(func.env) if func.env is not None else 0)
        if key not in self.attr_memo:
            from .fdai import Frame

            val: Any = FuncVal(fn=fn, self_obj=None, env=func.env, module=func.module, raw=True, defaults=func.defaults)
            frame = Frame(None, fn.module, func.env, set())  # decorators of a nested function see the enclosing variables
            for d in reversed(fn.node.decorator_list):
                name = dotted(d.func if isinstance(d, ast.Call) else d) or norm(d)
                if any(name == p or name.endswith("." + p) for p in PASS_THROUGH_DECORATORS):
                    continue
                val = self.call(self.eval(d, frame), [val], {}, d, frame)
            self.attr_memo[key] = val
        unbound = self.attr_memo[key]
        if func.self_obj is None:
            return unbound
        if isinstance(unbound, FuncVal) and unbound.self_obj is None:
            return FuncVal(fn=unbound.fn, self_obj=func.self_obj, env=unbound.env, lambda_node=unbound.lambda_node, module=unbound.module, raw=unbound.raw,
                           defaults=unbound.defaults)
        return Obj("functools.partial", {"func": unbound, "args": [func.self_obj], "kwargs": {}})

    def check_decorators(self, fn: FuncDef) -> None:
        for d in fn.node.decorator_list:
            name = dotted(d.func if isinstance(d, ast.Call) else d) or norm(d)
            if not any(name == p or name.endswith("." + p) for p in PASS_THROUGH_DECORATORS):
                if fn.qualname in self.summaries:
                    continue
                raise Unsupported(f"decorator {name} on {fn.qualname} has no model (add a summary)")

    # ------------------------------------------------------------------ calls
    def eval_call(self, e: ast.Call, frame) -> Any:
        func = self.eval(e.func, frame)
        args: List[Any] = []
        for a in e.args:
            if isinstance(a, ast.Starred):
                args.extend(self.iterate(self.eval(a.value, frame), a, frame))
            else:
                args.append(self.eval(a, frame))
        kwargs: Dict[str, Any] = {}
        for kw in e.keywords:
            if kw.arg is None:
                v = self.eval(kw.value, frame)
                if not isinstance(v, dict):
                    self.unsupported(e, frame, "** of non-dict")
                kwargs.update(v)
            else:
                kwargs[kw.arg] = self.eval(kw.value, frame)
        return self.call(func, args, kwargs, e, frame)

    def call(self, func: Any, args: List[Any], kwargs: Dict[str, Any], node: Optional[ast.AST], frame) -> Any:
        if isinstance(func, FuncVal):
            if func.lambda_node is not None:
                return self.run_function(func, args, kwargs, node)
            fn: FuncDef = func.fn
            if fn.qualname in self.summaries:
                return self.summaries[fn.qualname](self, func, args, kwargs)
            if not func.raw and any((dotted(d) or "").split(".")[-1] == "singledispatch" for d in fn.node.decorator_list):
                impl = self.single_dispatch(fn, args[0] if args else None)
                return self.call(FuncVal(fn=impl, self_obj=func.self_obj, env=func.env, module=impl.module, raw=True), args, kwargs, node, frame)
            if not func.raw and self.has_active_decorators(fn):
                return self.call(self.bound_value(fn, func), args, kwargs, node, frame)
            if fn.is_async:
                if any(isinstance(n_, (ast.Yield, ast.YieldFrom)) for n_ in walk_shallow(fn.node)):
                    # an async generator: its body runs when it is iterated (materialised then, laziness is not modelled)
                    return Obj("types.AsyncGeneratorType", {"func": func, "args": list(args), "kwargs": dict(kwargs)})
                return CoroVal(func, list(args), dict(kwargs))
            return self.run_function(func, args, kwargs, node)
        if isinstance(func, ClassVal):
            return self.construct(func, args, kwargs, node, frame)
        if isinstance(func, ExtVal):
            return self.call_ext(func.name, args, kwargs, node, frame)
        if isinstance(func, BoundExt):
            return self.call_bound(func, args, kwargs, node, frame)
        if isinstance(func, Obj) and func.cls == "operator.attrgetter":
            def get_path(o, path):
                for part in path.split("."):
                    o = self.getattr(o, part, node, frame)
                return o
            vals = [get_path(args[0], p_) for p_ in func.fields["args"]]
            return vals[0] if len(vals) == 1 else tuple(vals)
        if isinstance(func, Obj) and func.cls == "operator.itemgetter":
            vals = [self.call_bound(BoundExt(args[0], "__getitem__"), [k_], {}, node, frame) for k_ in func.fields["args"]]
            return vals[0] if len(vals) == 1 else tuple(vals)
        if isinstance(func, Obj) and func.cls == "operator.methodcaller":
            m_ = self.getattr(args[0], func.fields["args"][0], node, frame)
            return self.call(m_, list(func.fields["args"][1:]), dict(func.fields["kwargs"]), node, frame)
        if isinstance(func, Obj) and func.cls == "functools.partial":
            return self.call(func.fields["func"], [*func.fields["args"], *args], {**func.fields["kwargs"], **kwargs}, node, frame)
        if isinstance(func, Obj) and func.cls == "contextlib.cm_factory":
            return Obj("contextlib.cm", {"fn": func.fields["fn"], "args": list(args), "kwargs": dict(kwargs)})
        if isinstance(func, Obj) and func.cls == "functools.identity_decorator":
            return args[0]
        if isinstance(func, Obj) and func.cls == "functools.lru_cache_decorator":
            return Obj("functools.lru_cache_wrapper", {"fn": args[0], "cache": {}, "maxsize": func.fields.get("maxsize"), "order": []})
        if isinstance(func, Obj) and func.cls == "functools.lru_cache_wrapper":
            key = tuple(self.hashable(a, node, frame) for a in args) + tuple(sorted((k, self.hashable(v, node, frame)) for k, v in kwargs.items()))
            cache = func.fields["cache"]
            if key in cache:
                func.fields["order"].remove(key)
                func.fields["order"].append(key)
                return cache[key]
            val = self.call(func.fields["fn"], args, kwargs, node, frame)  # an exception is not cached
            cache[key] = val
            func.fields["order"].append(key)
            ms = func.fields.get("maxsize")
            if isinstance(ms, int) and len(cache) > ms:
                oldest = func.fields["order"].pop(0)
                del cache[oldest]
            return val
        if isinstance(func, (Obj, EnumVal)) and func.cls in self.model.classes:
            m_ = self.model.find_method(self.model.classes[func.cls], "__call__")
            if m_ is not None:
                return self.call(FuncVal(fn=m_, self_obj=func, module=m_.module), args, kwargs, node, frame)
        if isinstance(func, Opaque):
            if func.label.startswith("logger.") or func.kind == "logging.Logger":
                return None
            if "opaque-call" in self.ext_handlers:
                return self.ext_handlers["opaque-call"](self, func, args, kwargs)
            if self.opaque_calls:
                return Opaque(f"{func.label}()")
            raise Unsupported(f"call of opaque value {func.label} at line {getattr(node, 'lineno', '?')}")
        raise Unsupported(f"call of {func!r} at line {getattr(node, 'lineno', '?')}")

    def snapshot_context(self):
        """The current context (ContextVars and the context-bound cells a rule registered) as a task creation copies it."""
        return ([(cv, cv.fields["value"]) for cv in self.ctxvars], [(d, k, k in d, d.get(k)) for d, k in self.ctx_cells])

    def install_context(self, snap) -> None:
        for cv, val in snap[0]:
            cv.fields["value"] = val
        for d, k, had, val in snap[1]:
            if had:
                d[k] = val
            else:
                d.pop(k, None)

    def in_context_copy(self, thunk, snap=None):
        """Run `thunk` as a task does: in a copy of the context taken when the task was created; the changes it makes
        to the context stay in that copy."""
        current = self.snapshot_context()
        if snap is not None:
            self.install_context(snap)
        try:
            return thunk()
        finally:
            self.install_context(current)

    def await_(self, v: Any, node: ast.AST, frame) -> Any:
        if isinstance(v, CoroVal):
            if v.awaited:
                self.raise_("RuntimeError", "cannot reuse already awaited coroutine")
            v.awaited = True
            if v.task_ctx is not None:
                return self.in_context_copy(lambda: self.run_function(v.func, v.args, v.kwargs, node), v.task_ctx)
            return self.run_function(v.func, v.args, v.kwargs, node)
        if isinstance(v, GatherVal):
            order = self.gather_order(len(v.items)) if hasattr(self, "gather_order") else range(len(v.items))
            res: Dict[int, Any] = {}
            for i in order:
                x = v.items[i]
                if not isinstance(x, (CoroVal, GatherVal, Ready, Opaque)):
                    self.raise_("TypeError", "An asyncio.Future, a coroutine or an awaitable is required")
                # lemma L5: every coroutine passed to gather runs as its own task in a *copy* of the current context
                def one(x=x):
                    if getattr(v, "return_exceptions", False):
                        try:
                            return self.await_(x, node, frame)
                        except PyRaise as err_:
                            return err_.exc  # exceptions are treated like results (also non-Exception BaseExceptions of user code)
                    return self.await_(x, node, frame)

                res[i] = self.in_context_copy(one, getattr(v, "task_ctx", None))
            return [res[i] for i in range(len(v.items))]
        if isinstance(v, Ready):
            if v.exc is not None:
                raise PyRaise(v.exc)
            return v.value
        if isinstance(v, Opaque):
            key = (v.oid, "await")
            if key not in self.attr_memo:
                self.attr_memo[key] = Opaque(f"await {v.label}")
            return self.attr_memo[key]
        raise Unsupported(f"await of {v!r}")

    # ------------------------------------------------------------------ construction
    def construct(self, cv: ClassVal, args: List[Any], kwargs: Dict[str, Any], node, frame) -> Any:
        name = cv.name
        cls: Optional[ClassDef] = self.model.classes.get(name)
        if cls is not None:
            if self.model.is_enum(cls):
                if len(args) != 1:
                    self.unsupported(node, frame, "enum call")
                val = args[0]
                if isinstance(val, EnumVal) and val.cls == name:
                    return val
                if isinstance(val, EnumVal):
                    val = val.value
                if isinstance(val, (StrT, Opaque)):
                    raise Unsupported(f"enum lookup {name}({val!r}) with non-literal value")
                for n, v in self.members(cls).items():
                    if v == val and type(v) is type(val):
                        return EnumVal(name, n, v)
                missing = self.model.find_method(cls, "_missing_")
                if missing is not None:  # the enum's own fallback for values that are not a member's value
                    res_ = self.call(FuncVal(fn=missing, self_obj=ClassVal(name), module=missing.module, raw=True), [val], {}, node, frame)
                    if isinstance(res_, EnumVal) and res_.cls == name:
                        return res_
                    if res_ is not None:
                        self.raise_("TypeError", f"error in {cls.name}._missing_: returned {res_!r} instead of None or a valid member")
                raise PyRaise(self.exc("builtins.ValueError", f"{val!r} is not a valid {cls.name}"))
            if self.is_attrs(name) or "typing.NamedTuple" in self.model.mro(name):
                return self.construct_attrs(cls, args, kwargs, node, frame)
            obj = Obj(name)
            init = self.model.find_method(cls, "__init__")
            if init is not None:
                self.call(FuncVal(fn=init, self_obj=obj, module=init.module), args, kwargs, node, frame)
            elif self.is_subclass(name, "builtins.BaseException"):
                obj.fields["args"] = tuple(args)
            if self.is_subclass(name, "builtins.BaseException") and "args" not in obj.fields:
                obj.fields["args"] = tuple(args)
            return obj
        if name.startswith("builtins.") and self.is_subclass(name, "builtins.BaseException") or name.startswith("lark.exceptions."):
            return Obj(name, {"args": tuple(args)})
        if name == "lark.Tree":
            data = args[0] if args else kwargs.get("data")
            children = args[1] if len(args) > 1 else kwargs.get("children")
            return Obj("lark.Tree", {"data": data, "children": children})
        if name == "lark.Token":
            typ = args[0] if args else kwargs.get("type") or kwargs.get("type_")
            value = args[1] if len(args) > 1 else kwargs.get("value")
            return Obj("lark.Token", {"type": typ, "value": value})
        if name == "builtins.object":
            return Obj("builtins.object", {})
        if name == "contextvars.ContextVar":
            cv = Obj(name, {"name": args[0] if args else None, "value": kwargs.get("default", KeyError)})
            self.ctxvars.append(cv)
            return cv
        if name in self.ext_handlers:
            return self.ext_handlers[name](self, args, kwargs)
        if name == "builtins.str":
            return self.to_str(args[0], node, frame) if args else ""
        if name == "builtins.int":
            if args and isinstance(args[0], str):
                try:
                    return int(args[0])
                except ValueError:
                    self.raise_("ValueError", "invalid literal for int()")
            if args and isinstance(args[0], (int, float)):
                return int(args[0])
            if not args:
                return 0
            if isinstance(args[0], Opaque) and args[0].kind in ("builtins.int", "builtins.float", None):
                key_ = ("int()", args[0].oid)
                if key_ not in self.attr_memo:
                    self.attr_memo[key_] = Opaque(f"int({args[0].label})", kind="builtins.int")
                return self.attr_memo[key_]
            self.unsupported(node, frame, f"int({args!r})")
        if name == "builtins.float":
            if args and isinstance(args[0], (int, float)):
                return float(args[0])
            if args and isinstance(args[0], str):
                try:
                    return float(args[0])
                except ValueError:
                    self.raise_("ValueError", "could not convert string to float")
            if args and isinstance(args[0], Opaque):
                return Opaque(f"float({args[0].label})", kind="builtins.float")
            self.unsupported(node, frame, f"float({args!r})")
        if name == "builtins.bool":
            return self.truth(args[0]) if args else False
        if name == "builtins.list":
            return list(self.iterate(args[0], node, frame)) if args else []
        if name == "builtins.tuple":
            return tuple(self.iterate(args[0], node, frame)) if args else ()
        if name == "builtins.set":
            return set(self.hashable(x, node, frame) for x in self.iterate(args[0], node, frame)) if args else set()
        if name in ("builtins.dict", "weakref.WeakKeyDictionary", "weakref.WeakValueDictionary", "collections.OrderedDict"):
            # the weak / ordered mappings are modelled as a plain dict: an entry that may have vanished only removes behaviours
            out: Dict[Any, Any] = {}
            if args:
                src = args[0]
                if isinstance(src, dict):
                    out.update(src)
                else:
                    for pair in self.iterate(src, node, frame):
                        k, v = self.iterate(pair, node, frame)
                        out[self.hashable(k, node, frame)] = v
            out.update(kwargs)
            return out
        if name == "builtins.type":
            c = self.class_of(args[0])
            return ClassVal(c) if c else Opaque("type()")
        raise Unsupported(f"construction of {name}")

    def construct_attrs(self, cls: ClassDef, args: List[Any], kwargs: Dict[str, Any], node, frame) -> Obj:
        fields = self.model.attrs_fields(cls)
        obj = Obj(cls.qualname)
        names = list(fields)
        kw_only = any("kw_only=True" in norm(d) for cn in self.model.mro(cls.qualname)
                      for d in (self.model.classes[cn].node.decorator_list if cn in self.model.classes else []))
        if args:
            if kw_only:
                self.raise_("TypeError", f"{cls.name}() takes no positional arguments")
            if len(args) > len(names):
                self.raise_("TypeError", f"{cls.name}() too many positional arguments")
            for n, v in zip(names, args):
                if n in kwargs:
                    self.raise_("TypeError", f"{cls.name}() got multiple values for {n}")
                obj.fields[n] = v
        for k, v in kwargs.items():
            if k not in fields:
                self.raise_("TypeError", f"{cls.name}() got an unexpected keyword argument '{k}'")
            obj.fields[k] = v
        for n, info in fields.items():
            if n in obj.fields:
                continue
            if info["has_default"]:
                from .fdai import Frame  # local import to avoid a cycle
                d = info["default"]
                obj.fields[n] = self.eval(d, Frame(None, cls.module, None, set())) if d is not None else None
            else:
                self.raise_("TypeError", f"{cls.name}() missing required argument '{n}'")
        for n, info in fields.items():
            conv = info.get("converter")
            if conv is not None:
                from .fdai import Frame
                cfn = self.eval(conv, Frame(None, cls.module, None, set()))
                obj.fields[n] = self.call(cfn, [obj.fields[n]], {}, node, frame)
        if "typing.NamedTuple" not in self.model.mro(cls.qualname):
            from .fdai import Frame
            for n, info in fields.items():
                vexpr = info.get("validator")
                if vexpr is not None:
                    owner = next((self.model.classes[cn] for cn in self.model.mro(cls.qualname) if cn in self.model.classes
                                  and any(st is info["node"] for st in self.model.classes[cn].node.body)), cls)
                    key = (owner.qualname, n, "validator")
                    if key not in self.attr_memo:
                        self.attr_memo[key] = self.eval(vexpr, Frame(None, owner.module, None, set()))
                    self.apply_validator(self.attr_memo[key], obj, n, obj.fields[n], node, frame)
            for cn in reversed(self.model.mro(cls.qualname)):
                c = self.model.classes.get(cn)
                for m in (c.methods.values() if c is not None else ()):
                    for d in m.node.decorator_list:  # @<field>.validator
                        if isinstance(d, ast.Attribute) and d.attr == "validator" and isinstance(d.value, ast.Name) and d.value.id in fields:
                            self.call(FuncVal(fn=m, self_obj=obj, module=m.module), [Obj("attrs.Attribute", {"name": d.value.id}), obj.fields[d.value.id]], {}, node, frame)
            post = self.model.find_method(cls, "__attrs_post_init__")
            if post is not None:
                self.call(FuncVal(fn=post, self_obj=obj, module=post.module), [], {}, node, frame)
        return obj

    def apply_validator(self, val: Any, obj: Obj, name: str, value: Any, node, frame) -> None:
        """attrs validators (run after the converters): a definite mismatch raises as attrs does; a value the analysis
        does not know concretely (Opaque / symbolic text) passes - no alarm is based on it."""
        if val is None:
            return
        if isinstance(val, (list, tuple)):
            for v_ in val:
                self.apply_validator(v_, obj, name, value, node, frame)
            return
        if isinstance(val, (FuncVal,)) or (isinstance(val, Obj) and val.cls == "functools.partial"):
            self.call(val, [obj, Obj("attrs.Attribute", {"name": name}), value], {}, node, frame)
            return
        if not (isinstance(val, Obj) and val.cls == "attrs.validator"):
            raise Unsupported(f"attrs validator {val!r} of field {name}")
        kind, a, kw = val.fields["kind"], val.fields["args"], val.fields["kwargs"]
        unknown = isinstance(value, (Opaque, StrT))
        if kind == "optional":
            if value is not None:
                self.apply_validator(a[0] if a else kw.get("validator"), obj, name, value, node, frame)
        elif kind == "and_":
            for v_ in a:
                self.apply_validator(v_, obj, name, value, node, frame)
        elif kind == "or_":
            errs = []
            for v_ in a:
                try:
                    self.apply_validator(v_, obj, name, value, node, frame)
                    return
                except PyRaise as err_:
                    errs.append(err_)
            if errs:
                self.raise_("ValueError", f"None of the validators of '{name}' accepted {value!r}")
        elif kind == "instance_of":
            spec = a[0] if a else kw.get("type")
            if isinstance(value, Opaque) or (isinstance(value, StrT) and False):
                return
            try:
                ok = self.isinstance_(value, spec, node, frame)
            except Unsupported:
                return
            if not ok:
                specs = spec if isinstance(spec, tuple) else (spec,)
                if any(isinstance(s_, ExtVal) or (isinstance(s_, ClassVal) and s_.name not in self.model.classes and not s_.name.startswith("builtins.")) for s_ in specs):
                    return  # an external class: abstract stand-ins carry no class
                self.raise_("TypeError", f"'{name}' must be {spec!r} (got {value!r})")
        elif kind == "matches_re":
            rx = a[0] if a else kw.get("regex")
            flags = a[1] if len(a) > 1 else kw.get("flags", 0)
            func = a[2] if len(a) > 2 else kw.get("func")
            if isinstance(rx, Obj) and rx.cls == "re.Pattern":
                rx, flags = rx.fields["pattern"], rx.fields.get("flags", 0) or 0
            if unknown:
                return
            if not isinstance(value, str):
                self.raise_("TypeError", "expected string or bytes-like object")
            import re as _re

            fname = "fullmatch" if func is None else (func.name.split(".")[-1] if isinstance(func, ExtVal) else None)
            if fname not in ("fullmatch", "match", "search") or not isinstance(rx, str) or not isinstance(flags, int):
                raise Unsupported(f"matches_re({rx!r}, {flags!r}, {func!r})")
            if not getattr(_re.compile(rx, flags), fname)(value):
                self.raise_("ValueError", f"'{name}' must match regex {rx!r} ({value!r} doesn't)")
        elif kind == "in_":
            opts = self.iterate(a[0] if a else kw.get("options"), node, frame)
            if not unknown and not any(self.eq(value, o) for o in opts):
                self.raise_("ValueError", f"'{name}' must be in {opts!r} (got {value!r})")
        elif kind == "deep_iterable":
            mv = a[0] if a else kw.get("member_validator")
            iv = a[1] if len(a) > 1 else kw.get("iterable_validator")
            if iv is not None:
                self.apply_validator(iv, obj, name, value, node, frame)
            if isinstance(value, Opaque):
                return
            for member in self.iterate(value, node, frame):
                self.apply_validator(mv, obj, name, member, node, frame)
        elif kind == "deep_mapping":
            kv = a[0] if a else kw.get("key_validator")
            vv = a[1] if len(a) > 1 else kw.get("value_validator")
            mpv = a[2] if len(a) > 2 else kw.get("mapping_validator")
            if mpv is not None:
                self.apply_validator(mpv, obj, name, value, node, frame)
            if isinstance(value, Opaque):
                return
            if not isinstance(value, dict):
                self.raise_("TypeError", f"'{name}' must be a mapping")
            for k_, v_ in value.items():
                self.apply_validator(kv, obj, name, k_, node, frame)
                self.apply_validator(vv, obj, name, v_, node, frame)
        elif kind in ("min_len", "max_len"):
            if unknown:
                return
            n_ = len(self.iterate(value, node, frame))
            if (kind == "min_len" and n_ < a[0]) or (kind == "max_len" and n_ > a[0]):
                self.raise_("ValueError", f"Length of '{name}' must be {'>=' if kind == 'min_len' else '<='} {a[0]}: {n_}")
        elif kind in ("ge", "gt", "le", "lt"):
            if unknown or not isinstance(value, (int, float)) or not isinstance(a[0], (int, float)):
                return
            import operator as _op

            if not getattr(_op, kind)(value, a[0]):
                self.raise_("ValueError", f"'{name}' must be {kind} {a[0]}: {value}")
        elif kind == "is_callable":
            if not unknown and not isinstance(value, (FuncVal, ClassVal, ExtVal, BoundExt)) and not (isinstance(value, Obj) and value.cls in ("functools.partial",)):
                if not (isinstance(value, Obj) and value.cls in self.model.classes and self.model.find_method(self.model.classes[value.cls], "__call__")):
                    self.raise_("TypeError", f"'{name}' must be callable")
        elif kind == "not_":
            raise Unsupported("attrs.validators.not_")
        else:
            raise Unsupported(f"attrs validator {kind}")

    # ------------------------------------------------------------------ attribute access
    def getattr(self, v: Any, attr: str, node: Optional[ast.AST], frame, default: Any = KeyError) -> Any:  # noqa: C901
        if isinstance(v, Obj):
            if attr in v.fields:
                return v.fields[attr]
            if attr == "__class__":
                return ClassVal(v.cls)
            if v.cls == "lark.Token" and attr in ("start_pos", "line", "column", "end_line", "end_column", "end_pos"):
                return None  # position attributes every lark Token has (None unless positions are propagated)
            if attr == "__module__" and v.cls in self.model.classes:
                return self.model.classes[v.cls].module.name
            cls = self.model.classes.get(v.cls)
            if cls is not None:
                member = self.model.class_member(cls, attr)
                if member is not None and member[0] == "external":
                    if attr == "transform":
                        return BoundExt(v, "transform")
                    member = None
                if member is not None and member[0] == "method":
                    m = member[1]
                    if any((dotted(d) or "") == "staticmethod" for d in m.node.decorator_list):
                        return FuncVal(fn=m, module=m.module)
                    if any((dotted(d) or "") == "classmethod" for d in m.node.decorator_list):
                        return FuncVal(fn=m, self_obj=ClassVal(v.cls), module=m.module)
                    if any((dotted(d) or "") == "property" for d in m.node.decorator_list):
                        return self.run_function(FuncVal(fn=m, self_obj=v, module=m.module), [], {}, node)
                    return FuncVal(fn=m, self_obj=v, module=m.module)
                if member is not None:
                    _kind, ca, owner = member
                    key = (owner.qualname, "classattr", attr)
                    if key not in self.attr_memo:
                        self.attr_memo[key] = self.eval(ca, self.class_frame(owner))
                    return self.bind_class_attr(self.attr_memo[key], v)
            if cls is not None and self.model.is_transformer(cls) and attr == "transform":
                return BoundExt(v, "transform")
            if cls is not None and "typing.NamedTuple" in self.model.mro(v.cls):
                if attr == "_fields":
                    return tuple(self.model.attrs_fields(cls))
                if attr in ("_asdict", "_replace"):
                    return BoundExt(v, attr)
            if v.cls == "functools.lru_cache_wrapper":
                if attr in ("cache_info", "cache_clear"):
                    return BoundExt(v, attr)
                if attr == "__wrapped__":
                    return v.fields["fn"]
            if v.cls == "re.Pattern" and attr in ("sub", "match", "fullmatch", "search", "findall"):
                return BoundExt(v, attr)
            if v.cls == "re.Match" and attr in ("group", "groupdict", "groups"):
                return BoundExt(v, attr)
            if v.cls == "builtins.super":
                target = v.fields["self"]
                tcls = self.class_of(target)
                mro = self.class_mro(tcls) if tcls else []
                after = v.fields["after"]
                rest = mro[mro.index(after) + 1:] if after in mro else []
                for cn in rest:
                    c = self.model.classes.get(cn)
                    if c is not None and attr in c.methods:
                        return FuncVal(fn=c.methods[attr], self_obj=target, module=c.module)
                    if c is None and cn in ("lark.Transformer", "lark.visitors.Transformer") and attr == "transform" and isinstance(target, Obj):
                        return BoundExt(target, "transform")  # lark's own transform (lemma L3)
                return BoundExt(v, attr)  # an external base class: modelled as a no-op
            if v.cls == "contextvars.ContextVar" and attr in ("get", "set", "reset"):
                return BoundExt(v, attr)
            if v.cls in ("lark.Tree", "lark.Token") or self.is_subclass(v.cls, "builtins.BaseException"):
                if attr in ("msg",) and self.is_subclass(v.cls, "builtins.SyntaxError"):
                    args = v.fields.get("args", ())
                    return args[0] if args else None
                if attr == "orig_exc" and "orig_exc" not in v.fields:
                    return Opaque("orig_exc")
                if attr in ("scan_values", "iter_subtrees", "copy", "find_data", "find_pred", "iter_subtrees_topdown", "pretty"):
                    return BoundExt(v, attr)
            if default is not KeyError:
                return default
            raise PyRaise(self.exc("builtins.AttributeError", f"'{v.cls}' object has no attribute '{attr}'"))
        if isinstance(v, EnumVal):
            if attr == "value":
                return v.value
            if attr == "name":
                return v.name
            if attr == "__class__":
                return ClassVal(v.cls)
            cls = self.model.classes.get(v.cls)
            m = self.model.find_method(cls, attr) if cls is not None else None
            if m is not None:
                decos = [(dotted(d) or "") for d in m.node.decorator_list]
                if "staticmethod" in decos:
                    return FuncVal(fn=m, module=m.module)
                if "classmethod" in decos:
                    return FuncVal(fn=m, self_obj=ClassVal(v.cls), module=m.module)
                if "property" in decos or any(d_.endswith("cached_property") for d_ in decos):
                    return self.run_function(FuncVal(fn=m, self_obj=v, module=m.module), [], {}, node)
                return FuncVal(fn=m, self_obj=v, module=m.module)
            init = self.model.find_method(cls, "__init__") if cls is not None else None
            if init is not None:
                # members with an __init__: the attributes it sets from the member's value (evaluated once per member)
                mk = (v.cls, v.name, "enum-init")
                if mk not in self.attr_memo:
                    tmp = Obj(v.cls)
                    vals = list(v.value) if isinstance(v.value, tuple) else [v.value]
                    self.call(FuncVal(fn=init, self_obj=tmp, module=init.module), vals, {}, None, None)
                    self.attr_memo[mk] = tmp.fields
                if attr in self.attr_memo[mk]:
                    return self.attr_memo[mk][attr]
            if self.is_subclass(v.cls, "builtins.str"):
                return BoundExt(v.value, attr)
            if default is not KeyError:
                return default
            raise PyRaise(self.exc("builtins.AttributeError", attr))
        if isinstance(v, ClassVal):
            cls = self.model.classes.get(v.name)
            if cls is not None:
                if self.model.is_enum(cls):
                    members = self.members(cls)
                    if attr in members:
                        return EnumVal(v.name, attr, members[attr])
                if attr == "__name__":
                    return cls.name
                m = self.model.find_method(cls, attr)
                if m is not None:
                    if any((dotted(d) or "") == "classmethod" for d in m.node.decorator_list):
                        return FuncVal(fn=m, self_obj=v, module=m.module)
                    return FuncVal(fn=m, module=m.module)
                ca = self.model.class_attr(cls, attr)
                if ca is not None:
                    key = (v.name, "classattr", attr)
                    if key not in self.attr_memo:
                        self.attr_memo[key] = self.eval(ca, self.class_frame(cls))
                    return self.bind_class_attr(self.attr_memo[key], None)
            if attr == "__name__":
                return v.name.rsplit(".", 1)[-1]
            if cls is None and v.name in ("builtins.str", "builtins.list", "builtins.dict", "builtins.set", "builtins.tuple", "builtins.int"):
                return ExtVal(f"{v.name}.{attr}")  # unbound method of a builtin type, e.g. dict.fromkeys, str.upper
            if cls is None and attr.isupper():
                return EnumVal(v.name, attr, attr)  # member of an external enum (e.g. maus' DataElementDataType)
            raise Unsupported(f"class attribute {v.name}.{attr}")
        if isinstance(v, ExtVal):
            if v.name.startswith("module:"):
                mod = self.model.modules[v.name[7:]]
                sub = f"{mod.name}.{attr}"
                if sub in self.model.modules:
                    return ExtVal("module:" + sub)
                return self.module_value(mod, attr, node)
            return self.ext_value(f"{v.name}.{attr}")
        if isinstance(v, Opaque):
            key = (v.oid, attr)
            if key not in self.attr_memo:
                h = self.ext_handlers.get("opaque-attr")
                self.attr_memo[key] = h(self, v, attr) if h else Opaque(f"{v.label}.{attr}")
            return self.attr_memo[key]
        if isinstance(v, (str, StrT, list, dict, tuple, set)):
            return BoundExt(v, attr)
        if isinstance(v, FuncVal):
            if attr in ("cache_info", "cache_clear", "__wrapped__", "__name__"):
                return BoundExt(v, attr)
        if isinstance(v, CoroVal):
            return BoundExt(v, attr)
        if v is None or isinstance(v, (bool, int, float)):
            if default is not KeyError:
                return default
            raise PyRaise(self.exc("builtins.AttributeError", f"'{type(v).__name__}' object has no attribute '{attr}'"))
        raise Unsupported(f"attribute {attr} of {v!r}")

    # ------------------------------------------------------------------ bound externals (str/list/dict methods ...)
    def call_bound(self, b: BoundExt, args: List[Any], kwargs: Dict[str, Any], node, frame) -> Any:  # noqa: C901
        r, a = b.recv, b.attr
        if a == "__getitem__" and isinstance(r, (list, tuple, dict, str)) and len(args) == 1:
            if isinstance(r, dict):
                for k, v in r.items():
                    if self.eq(k, args[0]):
                        return v
                raise PyRaise(self.exc("builtins.KeyError", args[0]))
            try:
                return r[args[0]]
            except (IndexError, TypeError):
                self.raise_("IndexError", "index out of range")
        if a == "__setitem__" and isinstance(r, (dict, list)) and len(args) == 2:
            if isinstance(r, dict):
                r[self.hashable(args[0], node, frame)] = args[1]
            else:
                try:
                    r[args[0]] = args[1]
                except (IndexError, TypeError) as err_:
                    self.raise_(type(err_).__name__, str(err_))
            return None
        if a == "__delitem__" and isinstance(r, dict) and len(args) == 1:
            if args[0] not in r:
                raise PyRaise(self.exc("builtins.KeyError", args[0]))
            del r[args[0]]
            return None
        if a == "__contains__" and isinstance(r, (list, tuple, dict, set, str)) and len(args) == 1:
            return self.contains(r, args[0], node, frame)
        if a == "__len__" and isinstance(r, (list, tuple, dict, set, str)):
            return len(r)
        if isinstance(r, str):
            if all(isinstance(x, (str, int, tuple)) or x is None for x in args) and not kwargs:
                if a in ("upper", "lower", "strip", "lstrip", "rstrip", "startswith", "endswith", "replace", "split",
                         "isdigit", "title", "capitalize", "zfill", "removesuffix", "removeprefix", "casefold",
                         "isnumeric", "isdecimal", "count", "find", "rfind", "partition", "rpartition", "splitlines",
                         "isalpha", "isupper", "islower", "swapcase", "center", "ljust", "rjust", "index", "isspace", "isalnum", "isascii",
                         "isidentifier", "istitle", "isprintable", "expandtabs", "encode", "rsplit", "rindex", "translate"):
                    try:
                        return getattr(r, a)(*args)
                    except ValueError as err:
                        self.raise_(type(err).__name__, str(err))
            if a == "translate" and len(args) == 1 and isinstance(args[0], dict) and all(isinstance(k_, int) and (isinstance(v_, (str, int)) or v_ is None) for k_, v_ in args[0].items()):
                return r.translate(args[0])
            if a == "join":
                items = self.iterate(args[0], node, frame)
                acc: Any = ""
                for i, it in enumerate(items):
                    if i:
                        acc = strt_concat(acc, r)
                    acc = strt_concat(acc, self.to_str(it, node, frame) if not isinstance(it, (str, StrT)) else it)
                return acc
            if a == "format":
                import string as _string

                acc: Any = ""
                auto = 0
                try:
                    for literal, field, spec, conv in _string.Formatter().parse(r):
                        acc = strt_concat(acc, literal)
                        if field is None:
                            continue
                        if spec:
                            raise Unsupported(f"format spec {spec!r} in str.format")
                        if field == "":
                            val = args[auto]
                            auto += 1
                        elif field.isdigit():
                            val = args[int(field)]
                        elif field.isidentifier():
                            val = kwargs[field]
                        else:
                            raise Unsupported(f"format field {field!r}")
                        acc = strt_concat(acc, self.to_str(val, node, frame, repr_mode=(conv == "r")))
                except IndexError:
                    self.raise_("IndexError", "Replacement index out of range for positional args tuple")
                except KeyError as err:
                    raise PyRaise(self.exc("builtins.KeyError", str(err)))
                except ValueError as err:
                    self.raise_("ValueError", str(err))
                return acc
            if a in ("startswith", "endswith", "replace") and any(isinstance(x, (StrT, Opaque)) for x in args):
                return Opaque(f"str.{a}")
            self.unsupported(node, frame, f"str.{a}{tuple(args)!r}")
        if isinstance(r, StrT):
            if a == "encode":
                enc = (args[0] if args else kwargs.get("encoding", "utf-8"))
                errors = args[1] if len(args) > 1 else kwargs.get("errors", "strict")
                total = isinstance(enc, str) and enc.lower().replace("_", "-") in ("utf-8", "utf8", "utf-16", "utf-32", "utf-16-le", "utf-16-be", "utf-32-le", "utf-32-be")
                if not total and errors == "strict" and self.fork(("encode", repr(r), repr(enc)), f"{r!r} has a character outside {enc}"):
                    self.raise_("UnicodeEncodeError", f"'{enc}' codec can't encode character")
                return Opaque(f"{r!r}.encode()", kind="builtins.bytes")
            if a == "strip" and not args:
                parts = list(r.parts)
                if isinstance(parts[0], str):
                    parts[0] = parts[0].lstrip()
                if isinstance(parts[-1], str):
                    parts[-1] = parts[-1].rstrip()
                return StrT(tuple(p for p in parts if p != ""))
            if a in ("upper", "lower"):
                return StrT(tuple(getattr(p, a)() if isinstance(p, str) else Opaque(f"{p!r}.{a}()") for p in r.parts))
            if a in ("startswith", "endswith"):
                lit = r.parts[0] if a == "startswith" else r.parts[-1]
                if isinstance(lit, str) and isinstance(args[0], str) and len(lit) >= len(args[0]):
                    return getattr(lit, a)(args[0])
                return self.fork((a, repr(r), repr(args)), f"{r!r}.{a}({args!r})")
            return Opaque(f"{r!r}.{a}()")
        if isinstance(r, list):
            if a == "append":
                r.append(args[0])
                return None
            if a == "extend":
                r.extend(self.iterate(args[0], node, frame))
                return None
            if a == "insert":
                r.insert(args[0], args[1])
                return None
            if a == "pop":
                try:
                    return r.pop(*args)
                except IndexError:
                    self.raise_("IndexError", "pop from empty list")
            if a == "copy":
                return list(r)
            if a == "index":
                for i, x in enumerate(r):
                    if self.eq(x, args[0]):
                        return i
                self.raise_("ValueError", "not in list")
            if a in ("sort", "reverse"):
                if a == "reverse":
                    r.reverse()
                    return None
                key = kwargs.get("key")
                rev = bool(kwargs.get("reverse", False))
                r[:] = self.sorted_(r, key, rev, node, frame)
                return None
            if a == "clear":
                r.clear()
                return None
            if a == "count":
                return sum(1 for x in r if self.eq(x, args[0]))
        if isinstance(r, dict):
            if a == "get":
                for k, v in r.items():
                    if self.eq(k, args[0]):
                        return v
                return args[1] if len(args) > 1 else None
            if a == "keys":
                return list(r.keys())
            if a == "values":
                return list(r.values())
            if a == "items":
                return [(k, v) for k, v in r.items()]
            if a == "update":
                if args:
                    if isinstance(args[0], dict):
                        r.update(args[0])
                    else:
                        for pair_ in self.iterate(args[0], node, frame):
                            k_, v_ = self.iterate(pair_, node, frame)
                            r[self.hashable(k_, node, frame)] = v_
                r.update(kwargs)
                return None
            if a == "pop":
                for k in list(r):
                    if self.eq(k, args[0]):
                        return r.pop(k)
                if len(args) > 1:
                    return args[1]
                raise PyRaise(self.exc("builtins.KeyError", args[0]))
            if a == "setdefault":
                for k, v in r.items():
                    if self.eq(k, args[0]):
                        return v
                r[self.hashable(args[0], node, frame)] = args[1] if len(args) > 1 else None
                return r[args[0]]
            if a == "copy":
                return dict(r)
        if isinstance(r, tuple) and a in ("count", "index"):
            return getattr(r, a)(*args)
        if isinstance(r, (set, frozenset)):
            if a == "add" and isinstance(r, set):
                r.add(self.hashable(args[0], node, frame))
                return None
            if a == "pop" and isinstance(r, set):
                if not r:
                    raise PyRaise(self.exc("builtins.KeyError", "pop from an empty set"))
                if len(r) == 1:
                    return r.pop()
                raise Unsupported("set.pop() on a set with several elements (arbitrary element)")
            if a in ("discard", "remove") and isinstance(r, set):
                k_ = self.hashable(args[0], node, frame)
                if a == "remove" and k_ not in r:
                    raise PyRaise(self.exc("builtins.KeyError", k_))
                r.discard(k_)
                return None
            if a in ("update", "intersection_update", "difference_update") and isinstance(r, set):
                for o_ in args:
                    getattr(r, a)(set(self.hashable(x_, node, frame) for x_ in self.iterate(o_, node, frame)))
                return None
            if a == "clear" and isinstance(r, set):
                r.clear()
                return None
            if a in ("union", "intersection", "difference", "symmetric_difference", "issubset", "issuperset", "isdisjoint", "copy"):
                others = [set(self.hashable(x_, node, frame) for x_ in self.iterate(o_, node, frame)) for o_ in args]
                return getattr(r, a)(*others)
        if isinstance(r, Obj) and r.cls in ("lark.Tree",):
            return self.tree_method(r, a, args, kwargs, node, frame)
        if isinstance(r, Obj) and r.cls in self.model.classes and "typing.NamedTuple" in self.model.mro(r.cls):
            order = list(self.model.attrs_fields(self.model.classes[r.cls]))
            if a == "_asdict":
                return {k: r.fields[k] for k in order}
            if a == "_replace":
                f_ = dict(r.fields)
                f_.update(kwargs)
                return Obj(r.cls, f_)
        if isinstance(r, Obj) and r.cls == "functools.lru_cache_wrapper":
            if a == "cache_info":
                return Obj("functools.CacheInfo", {"currsize": len(r.fields["cache"]), "maxsize": r.fields.get("maxsize"),
                                                   "hits": Opaque("hits"), "misses": Opaque("misses")})
            if a == "cache_clear":
                r.fields["cache"].clear()
                r.fields["order"].clear()
                return None
        if isinstance(r, CoroVal) and a == "close":
            r.awaited = True
            return None
        if isinstance(r, Obj) and r.cls == "builtins.super":
            return None
        if isinstance(r, Obj) and r.cls == "re.Pattern":
            import re as _re
            pat, flags = r.fields["pattern"], r.fields.get("flags") or 0
            if not isinstance(pat, str) or not isinstance(flags, int):
                raise Unsupported("regex pattern is not a literal")
            rx = _re.compile(pat, flags)
            if a == "sub":
                repl, text = args[0], args[1]
                if isinstance(text, str) and isinstance(repl, str):
                    return rx.sub(repl, text)  # folding of a pure library function on literals
                if isinstance(repl, (FuncVal, Obj)) and isinstance(text, (str, StrT)):
                    def call_repl(m_):
                        out_ = self.call(repl, [Obj("re.Match", {"m": m_})], {}, node, frame)
                        if not isinstance(out_, str):
                            raise Unsupported(f"regex replacement function returned {out_!r}")
                        return out_
                    if isinstance(text, str):
                        return rx.sub(call_repl, text)
                    return StrT(tuple(rx.sub(call_repl, p_) if isinstance(p_, str) else p_ for p_ in text.parts))
                if isinstance(text, StrT) and isinstance(repl, str):
                    # only literal chunks can be rewritten; holes are kept (sound for patterns without '.'-like atoms
                    # spanning a hole: the rule using templates checks the pattern's language separately)
                    return StrT(tuple(rx.sub(repl, p_) if isinstance(p_, str) else p_ for p_ in text.parts))
                raise Unsupported(f"re.sub on {text!r}")
            if a in ("match", "fullmatch", "search"):
                text = args[0]
                if isinstance(text, Obj) and text.cls == "lark.Token":
                    text = text.fields.get("value")
                if not isinstance(text, str):
                    raise Unsupported(f"re.{a} on {text!r}")
                mt = getattr(rx, a)(text)
                return None if mt is None else Obj("re.Match", {"m": mt})
            if a == "findall" and isinstance(args[0], str):
                return rx.findall(args[0])
        if isinstance(r, Obj) and r.cls == "re.Match":
            mt = r.fields["m"]
            if a == "group":
                return mt.group(*args)
            if a == "groupdict":
                return dict(mt.groupdict())
            if a == "groups":
                return tuple(mt.groups())
        if isinstance(r, Obj) and r.cls == "contextvars.ContextVar":
            if a == "get":
                if r.fields["value"] is KeyError:
                    if args:
                        return args[0]
                    self.raise_("LookupError", "context variable has no value")
                return r.fields["value"]
            if a == "set":
                self.effects.append(("ctxvar.set", (r.fields.get("name"), args[0])))
                old = r.fields["value"]
                r.fields["value"] = args[0]
                return Obj("contextvars.Token", {"var": r, "old": old})
            if a == "reset":
                r.fields["value"] = args[0].fields["old"]
                return None
        if isinstance(r, Obj) and a == "transform" and r.cls in self.model.classes:
            return self.lark_transform(r, args[0], node, frame)
        if isinstance(r, FuncVal) and a == "cache_info":
            return Opaque("cache_info")
        if isinstance(r, Obj) and a == "with_traceback":
            return r
        self.unsupported(node, frame, f"method {a} of {type(r).__name__}")
        return None

    # ------------------------------------------------------------------ lark.Transformer.transform (lemma L3)
    def _is_inline(self, cls: ClassDef, name: str) -> bool:
        def has_inline(decos) -> bool:
            for d in decos:
                if isinstance(d, ast.Call) and (dotted(d.func) or "").endswith("v_args"):
                    for kw in d.keywords:
                        if kw.arg == "inline" and isinstance(kw.value, ast.Constant) and kw.value.value is True:
                            return True
            return False

        for cn in self.model.mro(cls.qualname):
            c = self.model.classes.get(cn)
            if c is None:
                continue
            if has_inline(c.node.decorator_list):
                return True
            if name in c.methods:
                return has_inline(c.methods[name].node.decorator_list)
        return False

    def lark_transform(self, tobj: Obj, tree: Any, node, frame) -> Any:
        cls = self.model.classes[tobj.cls]

        def visit_error(data, exc: Obj):
            if self.is_subclass(exc.cls, "builtins.Exception") and not self.is_subclass(exc.cls, "lark.exceptions.GrammarError"):
                return PyRaise(Obj("lark.exceptions.VisitError", {"args": (data,), "orig_exc": exc, "rule": data}))
            return PyRaise(exc)

        def visit(t: Any) -> Any:
            if isinstance(t, Obj) and t.cls == "lark.Tree":
                children = []
                for c in t.fields.get("children") or []:
                    children.append(visit(c))
                data = t.fields.get("data")
                name = data.fields.get("value") if isinstance(data, Obj) and data.cls == "lark.Token" else data
                if not isinstance(name, str):
                    raise Unsupported(f"tree node name {data!r}")
                m = self.model.find_method(cls, name)
                if m is None:
                    return Obj("lark.Tree", {"data": data, "children": children})
                fv = FuncVal(fn=m, self_obj=tobj, module=m.module)
                try:
                    if self._is_inline(cls, name):
                        return self.call(fv, children, {}, node, frame)
                    return self.call(fv, [children], {}, node, frame)
                except PyRaise as err:
                    raise visit_error(name, err.exc) from None
            if isinstance(t, Obj) and t.cls == "lark.Token":
                typ = t.fields.get("type")
                m = self.model.find_method(cls, typ) if isinstance(typ, str) else None
                if m is None:
                    return t
                try:
                    return self.call(FuncVal(fn=m, self_obj=tobj, module=m.module), [t], {}, node, frame)
                except PyRaise as err:
                    raise visit_error(typ, err.exc) from None
            return t

        if not (isinstance(tree, Obj) and tree.cls == "lark.Tree"):
            raise Unsupported(f"transform of non-tree {tree!r}")
        return visit(tree)

    def sorted_(self, items: List[Any], key: Any, reverse: bool, node, frame) -> List[Any]:
        def k(x):
            v = self.call(key, [x], {}, node, frame) if key is not None else x
            if isinstance(v, EnumVal):
                v = v.value
            if not isinstance(v, (int, str, float, tuple)):
                raise Unsupported(f"sort key {v!r}")
            return v

        try:
            return sorted(items, key=k, reverse=reverse)
        except TypeError as err:
            raise Unsupported(f"sort: {err}") from err
        except ValueError as err:
            self.raise_("ValueError", str(err))
            return []

    def tree_method(self, tree: Obj, a: str, args, kwargs, node, frame) -> Any:
        def leaves(t: Obj):
            for c in t.fields.get("children") or []:
                if isinstance(c, Obj) and c.cls == "lark.Tree":
                    yield from leaves(c)
                else:
                    yield c

        def subtrees(t: Obj):
            for c in t.fields.get("children") or []:
                if isinstance(c, Obj) and c.cls == "lark.Tree":
                    yield from subtrees(c)
            yield t

        if a == "scan_values":
            pred = args[0]
            return one_shot([x for x in leaves(tree) if self.truth(self.call(pred, [x], {}, node, frame))])  # a generator in lark
        if a == "iter_subtrees":
            return one_shot(subtrees(tree))  # lark returns a one-shot reversed(...) iterator
        if a == "copy":
            return Obj("lark.Tree", {"data": tree.fields.get("data"), "children": tree.fields.get("children")})
        if a == "find_data":
            return one_shot(t_ for t_ in subtrees(tree) if self.eq(t_.fields.get("data"), args[0]))  # lark: a filter object over iter_subtrees()
        if a == "find_pred":
            return one_shot(t_ for t_ in subtrees(tree) if self.truth(self.call(args[0], [t_], {}, node, frame)))
        if a == "iter_subtrees_topdown":
            def topdown(t: Obj):
                yield t
                for c in t.fields.get("children") or []:
                    if isinstance(c, Obj) and c.cls == "lark.Tree":
                        yield from topdown(c)
            return one_shot(topdown(tree))
        if a == "scan_values" and False:
            pass
        raise Unsupported(f"Tree.{a}")

    # ------------------------------------------------------------------ external functions
    def call_ext(self, name: str, args: List[Any], kwargs: Dict[str, Any], node, frame) -> Any:  # noqa: C901
        if name in self.ext_handlers:
            return self.ext_handlers[name](self, args, kwargs)
        short = name[9:] if name.startswith("builtins.") else name
        if name in ("builtins.str.maketrans",):
            if all(isinstance(a_, (str, dict)) or a_ is None for a_ in args) and not kwargs:
                try:
                    return dict(str.maketrans(*args))
                except (ValueError, TypeError) as err_:
                    self.raise_(type(err_).__name__, str(err_))
            raise Unsupported("str.maketrans on non-literal arguments")
        if name == "builtins.dict.fromkeys":
            val = args[1] if len(args) > 1 else None
            return {self.hashable(k, node, frame): val for k in self.iterate(args[0], node, frame)}
        if name.startswith(("builtins.str.", "builtins.list.", "builtins.dict.", "builtins.set.", "builtins.tuple.")) and args:
            return self.call_bound(BoundExt(args[0], name.rsplit(".", 1)[-1]), list(args[1:]), kwargs, node, frame)
        if short == "isinstance":
            return self.isinstance_(args[0], args[1], node, frame)
        if short == "issubclass":
            cands = list(args[1]) if isinstance(args[1], tuple) else [args[1]]
            return any(isinstance(c, ClassVal) and self.is_subclass(args[0].name, c.name) for c in cands)
        if short == "getattr":
            if not isinstance(args[1], str):
                self.unsupported(node, frame, "getattr with non-literal name")
            if len(args) > 2:
                try:
                    return self.getattr(args[0], args[1], node, frame, default=args[2])
                except PyRaise as err:
                    if self.is_subclass(err.exc.cls, "builtins.AttributeError"):
                        return args[2]
                    raise
            return self.getattr(args[0], args[1], node, frame)
        if short == "hasattr":
            try:
                self.getattr(args[0], args[1], node, frame)
                return True
            except PyRaise as err:
                if self.is_subclass(err.exc.cls, "builtins.AttributeError"):
                    return False
                raise
        if short == "setattr":
            if isinstance(args[0], Obj) and isinstance(args[1], str):
                args[0].fields[args[1]] = args[2]
                return None
        if short == "abs" and len(args) == 1:
            v_ = args[0]
            if isinstance(v_, (int, float)) and not isinstance(v_, bool):
                return abs(v_)
            if isinstance(v_, Opaque):
                return Opaque(f"abs({v_.label})", kind=v_.kind or "builtins.int")
            if isinstance(v_, (Obj, EnumVal)) and v_.cls in self.model.classes:
                m_ = self.model.find_method(self.model.classes[v_.cls], "__abs__")
                if m_ is not None:
                    return self.call(FuncVal(fn=m_, self_obj=v_, module=m_.module), [], {}, node, frame)
            self.unsupported(node, frame, f"abs({v_!r})")
        if short == "divmod" and len(args) == 2:
            a_, b_ = args
            if all(isinstance(x_, (int, float)) and not isinstance(x_, bool) for x_ in (a_, b_)):
                if b_ == 0:
                    self.raise_("ZeroDivisionError", "integer division or modulo by zero")
                return divmod(a_, b_)
            if isinstance(a_, Opaque) or isinstance(b_, Opaque):
                la, lb = getattr(a_, "label", a_), getattr(b_, "label", b_)
                return (Opaque(f"({la} // {lb})", kind="builtins.int"), Opaque(f"({la} % {lb})", kind="builtins.int"))
            self.unsupported(node, frame, f"divmod({a_!r}, {b_!r})")
        if short == "globals" and not args and frame is not None:
            return Obj("builtins.module_globals", {"module": frame.module})
        if short == "len":
            v = args[0]
            if isinstance(v, (list, tuple, dict, set, str)):
                return len(v)
            if is_one_shot(v):
                self.raise_("TypeError", "object of type 'generator' has no len()")
            if isinstance(v, StrT):
                key = ("len", repr(v))
                if key not in self.attr_memo:
                    self.attr_memo[key] = Opaque(f"len({v!r})", kind="builtins.int")
                return self.attr_memo[key]
            if isinstance(v, (Obj, EnumVal)) and v.cls in self.model.classes:
                m_ = self.model.find_method(self.model.classes[v.cls], "__len__")
                if m_ is not None:
                    return self.call(FuncVal(fn=m_, self_obj=v, module=m_.module), [], {}, node, frame)
            self.unsupported(node, frame, f"len({v!r})")
        if short == "repr":
            return self.to_str(args[0], node, frame, repr_mode=True)
        if short == "enumerate":
            start = args[1] if len(args) > 1 else kwargs.get("start", 0)
            return one_shot([(i + start, x) for i, x in enumerate(self.iterate(args[0], node, frame))])
        if short == "zip":
            lists = [self.iterate(a, node, frame) for a in args]
            return one_shot([tuple(t) for t in zip(*lists)])
        if short == "range":
            return list(range(*args))
        if short == "reversed":
            return one_shot(reversed(self.iterate(args[0], node, frame)))
        if short == "sorted":
            return self.sorted_(self.iterate(args[0], node, frame), kwargs.get("key"), bool(kwargs.get("reverse", False)), node, frame)
        if short in ("any", "all"):
            items = self.iterate(args[0], node, frame)
            if short == "any":
                return any(self.truth(x) for x in items)
            return all(self.truth(x) for x in items)
        if short in ("min", "max"):
            items = self.iterate(args[0], node, frame) if len(args) == 1 else list(args)
            key = kwargs.get("key")
            best = None
            bestk = None
            for x in items:
                kx = self.call(key, [x], {}, node, frame) if key is not None else x
                if not isinstance(kx, (int, float, str)):
                    raise Unsupported(f"{short} key {kx!r}")
                if best is None or (kx > bestk if short == "max" else kx < bestk):
                    best, bestk = x, kx
            if best is None and not items:
                self.raise_("ValueError", f"{short}() arg is an empty sequence")
            return best
        if short == "map":
            seqs = [self.iterate(a, node, frame) for a in args[1:]]
            return one_shot([self.call(args[0], list(t), {}, node, frame) for t in zip(*seqs)])
        if short == "filter":
            items = self.iterate(args[1], node, frame)
            return one_shot([x for x in items if self.truth(self.call(args[0], [x], {}, node, frame) if args[0] is not None else x)])
        if short == "callable":
            return isinstance(args[0], (FuncVal, ClassVal, ExtVal, BoundExt))
        if short == "sum":
            return sum(self.iterate(args[0], node, frame))
        if short == "print":
            return None
        if short in ("abs", "round", "divmod", "ord", "chr", "bin", "hex", "pow", "float", "frozenset") and \
                all(isinstance(x, (int, float, str, bool, tuple, list, set, frozenset)) for x in args) and not kwargs:
            import builtins as _b
            try:
                return getattr(_b, short)(*args)
            except (TypeError, ValueError) as err_:
                self.raise_(type(err_).__name__, str(err_))
        if short == "id":
            self._keepalive = getattr(self, "_keepalive", [])
            self._keepalive.append(args[0])
            return id(args[0])
        if name in ("pickle.dumps", "marshal.dumps"):
            return Obj("builtins.bytes", {"pickled": self.deepcopy(args[0])})
        if name in ("pickle.loads", "marshal.loads"):
            if isinstance(args[0], Obj) and "pickled" in args[0].fields:
                return self.deepcopy(args[0].fields["pickled"])
        if short == "super":
            if frame is None or frame.fn is None or frame.fn.cls is None or not frame.fn.params:
                raise Unsupported("super() outside a method")
            return Obj("builtins.super", {"self": frame.vars.get(frame.fn.params[0]), "after": frame.fn.cls.qualname})
        if short == "iter":
            return args[0] if is_one_shot(args[0]) else one_shot(self.iterate(args[0], node, frame))
        if short == "next":
            items = args[0]
            if is_one_shot(items):
                if items.fields["pos"] < len(items.fields["items"]):
                    items.fields["pos"] += 1
                    return items.fields["items"][items.fields["pos"] - 1]
                if len(args) > 1:
                    return args[1]
                self.raise_("StopIteration")
            self.raise_("TypeError", f"'{self.class_of(items)}' object is not an iterator")
        if name == "heapq.merge":
            # the real algorithm (a k-way merge that *assumes* sorted inputs), not a sort: unsorted inputs stay unsorted
            import heapq as _hq
            key, rev = kwargs.get("key"), bool(kwargs.get("reverse", False))

            def k_(x):
                v = self.call(key, [x], {}, node, frame) if key is not None else x
                if isinstance(v, EnumVal):
                    v = v.value
                if not isinstance(v, (int, str, float, tuple)):
                    raise Unsupported(f"merge key {v!r}")
                return v

            try:
                return list(_hq.merge(*[self.iterate(a, node, frame) for a in args], key=k_, reverse=rev))
            except TypeError as err:
                raise Unsupported(f"heapq.merge: {err}") from err
        if name == "itertools.chain.from_iterable":
            return [x for sub_ in self.iterate(args[0], node, frame) for x in self.iterate(sub_, node, frame)]
        if name == "itertools.compress":
            return [x for x, f_ in zip(self.iterate(args[0], node, frame), self.iterate(args[1], node, frame)) if self.truth(f_)]
        if name in ("itertools.repeat",) and len(args) == 2:
            return [args[0]] * args[1]
        if name == "itertools.zip_longest":
            import itertools as _it
            return [tuple(t) for t in _it.zip_longest(*[self.iterate(a, node, frame) for a in args], fillvalue=kwargs.get("fillvalue"))]
        if name in ("itertools.product", "itertools.combinations", "itertools.permutations", "itertools.chain"):
            import itertools as _it
            seqs = [self.iterate(a, node, frame) for a in args[: (1 if short != "itertools.product" and short != "itertools.chain" else None)]]
            if short == "itertools.product":
                return [tuple(t) for t in _it.product(*seqs, repeat=kwargs.get("repeat", 1))]
            if short == "itertools.chain":
                return [x for s_ in seqs for x in s_]
            r = args[1] if len(args) > 1 else kwargs.get("r")
            fn_ = _it.combinations if short == "itertools.combinations" else _it.permutations
            return [tuple(t) for t in fn_(seqs[0], r)]
        if name == "asyncio.wait_for":
            return args[0]  # no timeout ever fires in the abstract run (time is not modelled; C12.noapi names the construct)
        if name in ("asyncio.ensure_future", "asyncio.create_task", "asyncio.shield"):
            if isinstance(args[0], CoroVal):
                args[0].task_ctx = self.snapshot_context()  # a task runs in a copy of the context taken at its creation
            return args[0]
        if name == "asyncio.as_completed":
            items = self.iterate(args[0], node, frame)
            order = self.gather_order(len(items)) if hasattr(self, "gather_order") else range(len(items))
            return [items[i] for i in order]  # completion order = the schedule chosen by the rule
        if name == "asyncio.sleep":
            return Ready(None)
        if name in ("attrs.evolve", "attr.evolve", "dataclasses.replace"):
            inst = args[0]
            if not (isinstance(inst, Obj) and inst.cls in self.model.classes):
                raise Unsupported(f"{name} on {inst!r}")
            cls_ = self.model.classes[inst.cls]
            fields_ = self.model.attrs_fields(cls_)
            values = {k_: inst.fields.get(k_) for k_ in fields_}
            values.update(kwargs)
            return self.construct_attrs(cls_, [], values, node, frame)  # a new instance built through __init__ (validators run again)
        if name in ("builtins.staticmethod", "builtins.classmethod") and len(args) == 1:
            return args[0]  # (used as a plain call on an already unbound callable stored in a class attribute)
        if name == "contextlib.contextmanager":
            return Obj("contextlib.cm_factory", {"fn": args[0]})
        if name == "contextlib.nullcontext":
            return Obj("contextlib.nullcontext", {"value": args[0] if args else kwargs.get("enter_result")})
        if name.startswith(("attrs.validators.", "attr.validators.")):
            return Obj("attrs.validator", {"kind": name.rsplit(".", 1)[-1], "args": list(args), "kwargs": dict(kwargs)})
        if name in ("bisect.bisect_right", "bisect.bisect", "bisect.bisect_left"):
            import bisect as _bisect

            seq = self.iterate(args[0], node, frame)
            x = args[1]
            if kwargs or len(args) != 2 or not all(isinstance(v_, (int, float, str)) and not isinstance(v_, bool) for v_ in [*seq, x]):
                raise Unsupported(f"{name} on non-literal values")
            try:
                return getattr(_bisect, short.split(".")[-1])(seq, x)
            except TypeError as err_:
                self.raise_("TypeError", str(err_))
        if name == "asyncio.gather":
            g = GatherVal(list(args))
            g.return_exceptions = bool(kwargs.get("return_exceptions", False))
            g.task_ctx = self.snapshot_context()
            return g
        if name in ("inspect.isawaitable", "asyncio.iscoroutine", "inspect.iscoroutine"):
            v = args[0]
            if isinstance(v, (CoroVal, GatherVal)) or (isinstance(v, Ready) and name == "inspect.isawaitable"):
                return True
            if isinstance(v, Opaque):
                return self.fork(("awaitable", v.oid), f"isawaitable({v.label})")
            return False
        if name in ("inspect.iscoroutinefunction", "asyncio.iscoroutinefunction"):
            v = args[0]
            if isinstance(v, FuncVal) and v.fn is not None:
                return v.fn.is_async
            if isinstance(v, Opaque):
                return self.fork(("corofn", v.oid), f"iscoroutinefunction({v.label})")
            return False
        if name == "copy.deepcopy":
            return self.deepcopy(args[0])
        if name == "copy.copy":
            v = args[0]
            if isinstance(v, Obj):
                return Obj(v.cls, dict(v.fields))
            return v
        if name == "functools.partialmethod":
            return Obj("functools.partialmethod", {"func": args[0], "args": list(args[1:]), "kwargs": dict(kwargs)})
        if name == "functools.reduce":
            items = self.iterate(args[1], node, frame)
            if len(args) > 2:
                acc_ = args[2]
            elif items:
                acc_, items = items[0], items[1:]
            else:
                self.raise_("TypeError", "reduce() of empty iterable with no initial value")
            for x in items:
                acc_ = self.call(args[0], [acc_, x], {}, node, frame)
            return acc_
        if name in ("operator.attrgetter", "operator.itemgetter", "operator.methodcaller"):
            return Obj(name, {"args": list(args), "kwargs": dict(kwargs)})
        if name.startswith("operator."):
            opn = name[9:].strip("_")
            import ast as _ast
            binops = {"or": _ast.BitOr(), "and": _ast.BitAnd(), "xor": _ast.BitXor(), "add": _ast.Add(), "concat": _ast.Add(), "iconcat": _ast.Add(), "iadd": _ast.Add(),
                      "sub": _ast.Sub(), "mul": _ast.Mult(), "mod": _ast.Mod()}
            if opn in binops and len(args) == 2:
                if opn in ("iconcat", "iadd") and isinstance(args[0], list):
                    args[0].extend(self.iterate(args[1], node, frame))
                    return args[0]
                return self.binop(binops[opn], args[0], args[1], node, frame)
            cmps = {"eq": _ast.Eq(), "ne": _ast.NotEq(), "is": _ast.Is(), "is_not": _ast.IsNot(), "lt": _ast.Lt(), "le": _ast.LtE(), "gt": _ast.Gt(), "ge": _ast.GtE()}
            if name[9:] in ("is_", "is_not", "eq", "ne", "lt", "le", "gt", "ge") and len(args) == 2:
                return self.compare(cmps[name[9:].rstrip("_") if name[9:] != "is_not" else "is_not"], args[0], args[1], node, frame)
            if opn == "contains":
                return self.contains(args[0], args[1], node, frame)
            if opn == "not":
                return not self.truth(args[0])
            if opn == "truth":
                return self.truth(args[0])
            if opn == "getitem":
                return self.call_bound(BoundExt(args[0], "__getitem__"), [args[1]], {}, node, frame)
            raise Unsupported(f"operator.{name[9:]}")
        if name == "contextlib.suppress":
            return Obj("contextlib.suppress", {"classes": list(args)})
        if name == "functools.partial":
            return Obj("functools.partial", {"func": args[0], "args": list(args[1:]), "kwargs": dict(kwargs)})
        if name in ("functools.wraps",):
            return Obj("functools.identity_decorator", {})
        if name in ("functools.lru_cache", "functools.cache"):
            if name == "functools.cache":
                return Obj("functools.lru_cache_wrapper", {"fn": args[0], "cache": {}, "maxsize": None, "order": []})
            if len(args) == 1 and isinstance(args[0], (FuncVal, Obj)) and not kwargs:
                return Obj("functools.lru_cache_wrapper", {"fn": args[0], "cache": {}, "maxsize": 128, "order": []})
            ms = kwargs.get("maxsize", args[0] if args else 128)
            return Obj("functools.lru_cache_decorator", {"maxsize": ms})
        if name == "inspect.getmembers":
            target = args[0]
            pred = args[1] if len(args) > 1 else kwargs.get("predicate")
            tcls = self.class_of(target) if not isinstance(target, ClassVal) else target.name
            if tcls is None or tcls not in self.model.classes:
                raise Unsupported(f"inspect.getmembers({target!r})")
            names = set()
            for cn in self.model.mro(tcls):
                c_ = self.model.classes.get(cn)
                if c_ is not None:
                    names.update(c_.methods)
                    names.update(c_.assigns)
            if isinstance(target, Obj):
                names.update(k_ for k_ in target.fields if isinstance(k_, str))
            out_ = []
            for n_ in sorted(names):
                val_ = self.getattr(target, n_, node, frame)  # evaluates properties, like the real getmembers
                if pred is None or self.call(pred, [val_], {}, node, frame):
                    out_.append((n_, val_))
            return out_
        if name in ("inspect.ismethod", "inspect.isfunction", "inspect.isroutine"):
            v_ = args[0]
            bound = isinstance(v_, FuncVal) and v_.self_obj is not None
            if isinstance(v_, FuncVal):
                return {"inspect.ismethod": bound, "inspect.isfunction": not bound, "inspect.isroutine": True}[name]
            return isinstance(v_, BoundExt) and name != "inspect.isfunction"
        if name == "logging.getLogger":
            return Opaque("logger", kind="logging.Logger", truthy=True)
        if name.startswith("typing.") or name in ("typing.TypeVar", "typing.cast"):
            if short == "typing.cast":
                return args[1]
            return Opaque(name)
        if name in ("inject.instance",):
            key = ("inject.instance", repr(args[0]))
            if key not in self.attr_memo:
                kind = args[0].name if isinstance(args[0], ClassVal) else None
                self.attr_memo[key] = Opaque(f"inject.instance({args[0]!r})", kind=kind, truthy=True, not_none=True)
            return self.attr_memo[key]
        if name in ("re.compile",):
            return Obj("re.Pattern", {"pattern": args[0], "flags": args[1] if len(args) > 1 else 0})
        if name == "dataclasses.replace":
            v = args[0]
            if isinstance(v, Obj):
                f = dict(v.fields)
                f.update(kwargs)
                return Obj(v.cls, f)
        raise Unsupported(f"external call {name} has no model (line {getattr(node, 'lineno', '?')})")

    def deepcopy(self, v: Any, memo: Optional[Dict[int, Any]] = None) -> Any:
        memo = memo if memo is not None else {}
        if isinstance(v, Obj):
            if id(v) in memo:
                return memo[id(v)]
            new = Obj(v.cls)
            memo[id(v)] = new
            new.fields = {k: self.deepcopy(x, memo) for k, x in v.fields.items()}
            return new
        if isinstance(v, list):
            return [self.deepcopy(x, memo) for x in v]
        if isinstance(v, dict):
            return {k: self.deepcopy(x, memo) for k, x in v.items()}
        if isinstance(v, tuple):
            return tuple(self.deepcopy(x, memo) for x in v)
        return v

    def isinstance_(self, v: Any, spec: Any, node, frame) -> bool:
        cands = list(spec) if isinstance(spec, tuple) else [spec]
        vc = self.class_of(v)
        for c in cands:
            if not isinstance(c, ClassVal):
                if isinstance(c, ExtVal) and isinstance(v, Opaque):
                    if self.fork(("isinstance", v.oid, c.name), f"isinstance({v.label},{c.name})"):
                        return True
                    continue
                if isinstance(c, ExtVal):
                    # an external class we do not model: only decidable for repo/builtin values (then False)
                    if vc is not None and self.is_subclass(vc, c.name):
                        return True  # a stand-in declared (ext_bases) to be of that external class
                    if vc is not None and not isinstance(v, Opaque):
                        if c.name in ("lark.Tree", "lark.Token") and isinstance(v, Obj):
                            if v.cls == c.name:
                                return True
                        continue
                raise Unsupported(f"isinstance against {c!r}")
            if isinstance(v, Opaque) and v.kind is None:
                if self.fork(("isinstance", v.oid, c.name), f"isinstance({v.label},{c.name})"):
                    return True
                continue
            if vc is None:
                raise Unsupported(f"isinstance of {v!r}")
            if self.is_subclass(vc, c.name):
                return True
            if isinstance(v, bool) and c.name == "builtins.int":
                return True
        return False
