"""Engine E (part 1): regular languages of Python regexes over the whole Unicode alphabet.

The *structure* of a regex (concatenation, alternation, repetition, groups) is taken from `re._parser`; the character
set of every single-character atom (literal, class, category, with whatever flags apply at that point) is obtained
from the regex engine itself by compiling that atom alone and matching it against the string of all code points - so
case folding, \\d, \\s ... are exactly the interpreter's. From that an epsilon-NFA, a DFA over the induced partition
of the alphabet, language equality with a shortest witness, finite-language enumeration, first/extension character
sets are computed. Look-arounds and anchors are not part of the language engine; a leading look-ahead is split off
and returned to the caller.
"""
from __future__ import annotations

import re
import re._compiler as _compiler
import re._constants as _c
import re._parser as _parser
from dataclasses import dataclass
from typing import Dict, FrozenSet, Iterable, List, Optional, Set, Tuple

from .report import Unsupported

MAXCP = 0x110000
_ALL: Optional[str] = None


def all_chars() -> str:
    global _ALL  # pylint:disable=global-statement
    if _ALL is None:
        _ALL = "".join(map(chr, range(MAXCP)))
    return _ALL


@dataclass(frozen=True)
class CS:
    """A set of code points: `chars` if not neg, else the complement of `chars`."""

    neg: bool
    chars: FrozenSet[int]

    def __contains__(self, cp: int) -> bool:
        return (cp in self.chars) != self.neg

    def is_empty(self) -> bool:
        return not self.neg and not self.chars

    def union(self, o: "CS") -> "CS":
        if not self.neg and not o.neg:
            return CS(False, self.chars | o.chars)
        if self.neg and o.neg:
            return CS(True, self.chars & o.chars)
        n, p = (self, o) if self.neg else (o, self)
        return CS(True, n.chars - p.chars)

    def intersect(self, o: "CS") -> "CS":
        return self.complement().union(o.complement()).complement()

    def complement(self) -> "CS":
        return CS(not self.neg, self.chars)

    def minus(self, o: "CS") -> "CS":
        return self.intersect(o.complement())

    def witness(self) -> Optional[int]:
        if not self.neg:
            return min(self.chars) if self.chars else None
        for cp in (0x61, 0x41, 0x30, 0x21, 0x7E, 0x100):
            if cp not in self.chars:
                return cp
        for cp in range(MAXCP):
            if cp not in self.chars and not 0xD800 <= cp <= 0xDFFF:
                return cp
        return None

    def describe(self, limit: int = 12) -> str:
        items = sorted(self.chars)[:limit]
        body = ",".join(repr(chr(c)) if 0x20 < c < 0x7F else f"U+{c:04X}" for c in items)
        more = "" if len(self.chars) <= limit else f",...({len(self.chars)})"
        return ("NOT{" if self.neg else "{") + body + more + "}"


EMPTY = CS(False, frozenset())
ANYCHAR = CS(True, frozenset())
_atom_cache: Dict[Tuple[str, int], CS] = {}


def atom_charset(item, flags: int, state) -> CS:
    """Character set matched by a single-character regex item under `flags`, asked from the regex engine."""
    op, av = item
    key = (repr(item), flags & (re.I | re.A | re.S | re.U | re.L))
    if key in _atom_cache:
        return _atom_cache[key]
    if op is _c.LITERAL and not flags & re.I:
        cs = CS(False, frozenset([av]))
    else:
        st = _parser.State()
        eff = flags & (re.I | re.A | re.S | re.L | re.M | re.X)
        st.flags = eff if eff & re.A else eff | re.U
        st.str = ""
        sub = _parser.SubPattern(st, [item])
        try:
            pat = _compiler.compile(sub, 0)
        except Exception as err:  # pylint:disable=broad-except
            raise Unsupported(f"cannot compile regex atom {item!r}: {err}") from err
        matched = pat.findall(all_chars())
        s = frozenset(ord(m) for m in matched if len(m) == 1)
        if len(s) > MAXCP // 2:
            cs = CS(True, frozenset(range(MAXCP)) - s)
        else:
            cs = CS(False, s)
    _atom_cache[key] = cs
    return cs


class NFA:
    def __init__(self):
        self.n = 0
        self.eps: Dict[int, Set[int]] = {}
        self.edges: Dict[int, List[Tuple[CS, int]]] = {}
        self.start = self.new()
        self.accept = self.new()

    def new(self) -> int:
        self.n += 1
        self.eps[self.n - 1] = set()
        self.edges[self.n - 1] = []
        return self.n - 1


def _build(nfa: NFA, items, flags: int, state, s: int, t: int) -> None:
    """Thompson construction of the sequence `items` between states s and t."""
    cur = s
    items = list(items)
    for idx, item in enumerate(items):
        nxt = t if idx == len(items) - 1 else nfa.new()
        op, av = item
        if op in (_c.LITERAL, _c.NOT_LITERAL, _c.IN, _c.ANY, _c.CATEGORY):
            nfa.edges[cur].append((atom_charset(item, flags, state), nxt))
        elif op is _c.BRANCH:
            for alt in av[1]:
                a, b = nfa.new(), nfa.new()
                nfa.eps[cur].add(a)
                _build(nfa, alt, flags, state, a, b)
                nfa.eps[b].add(nxt)
        elif op is _c.SUBPATTERN:
            _group, add, dele, p = av
            _build(nfa, p, (flags | add) & ~dele if not (add & (re.A | re.U)) else ((flags & ~(re.A | re.U)) | add) & ~dele, state, cur, nxt)
        elif op in (_c.MAX_REPEAT, _c.MIN_REPEAT, getattr(_c, "POSSESSIVE_REPEAT", None)):
            lo, hi, p = av
            if hi is not _c.MAXREPEAT and hi > 64:
                raise Unsupported("repeat bound > 64")
            a = cur
            for _ in range(lo):
                b = nfa.new()
                _build(nfa, p, flags, state, a, b)
                a = b
            if hi is _c.MAXREPEAT:
                loop_in, loop_out = nfa.new(), nfa.new()
                nfa.eps[a].add(loop_in)
                _build(nfa, p, flags, state, loop_in, loop_out)
                nfa.eps[loop_out].add(loop_in)
                nfa.eps[loop_out].add(nxt)
                nfa.eps[a].add(nxt)
            else:
                nfa.eps[a].add(nxt)
                for _ in range(hi - lo):
                    b = nfa.new()
                    _build(nfa, p, flags, state, a, b)
                    nfa.eps[b].add(nxt)
                    a = b
        elif op is _c.AT and av in (_c.AT_BEGINNING, _c.AT_BEGINNING_STRING) and idx == 0 and cur == nfa.start:
            nfa.eps[cur].add(nxt)
        elif op is _c.AT and av in (_c.AT_END, _c.AT_END_STRING) and idx == len(items) - 1 and t == nfa.accept:
            nfa.eps[cur].add(nxt)
        else:
            raise Unsupported(f"regex construct {op} {av!r} is outside the language engine")
        cur = nxt
    if not items:
        nfa.eps[s].add(t)


@dataclass
class Parsed:
    pattern: str
    nfa: NFA
    lookahead_not: Optional[object]  # a leading (?!...) body split off (sre items) or None
    flags: int
    state: object


def parse(pattern: str, flags: int = 0) -> Parsed:
    try:
        p = _parser.parse(pattern, flags)
    except re.error as err:
        raise Unsupported(f"regex {pattern!r} does not parse: {err}") from err
    gflags = p.state.flags
    items = list(p)
    # unwrap a single non-capturing flag group that wraps everything (lark wraps '/x/i' as (?i:x))
    look = None
    wrap_flags = gflags
    inner = items
    while len(inner) == 1 and inner[0][0] is _c.SUBPATTERN:
        _g, add, dele, sub = inner[0][1]
        wrap_flags = (wrap_flags | add) & ~dele
        inner = list(sub)
    if inner and inner[0][0] is _c.ASSERT_NOT and inner[0][1][0] == 1:
        look = inner[0][1][1]
        inner = inner[1:]
        items = inner
        flags_for_build = wrap_flags
    else:
        flags_for_build = gflags
    nfa = NFA()
    _build(nfa, items, flags_for_build, p.state, nfa.start, nfa.accept)
    return Parsed(pattern, nfa, look, flags_for_build, p.state)


# ------------------------------------------------------------------------------------------------ DFA
def _closure(nfa: NFA, states: Iterable[int]) -> FrozenSet[int]:
    out = set(states)
    work = list(out)
    while work:
        s = work.pop()
        for t in nfa.eps[s]:
            if t not in out:
                out.add(t)
                work.append(t)
    return frozenset(out)


def partition(charsets: Iterable[CS]) -> List[CS]:
    """Coarsest partition of the alphabet that refines all given sets (blocks as CS)."""
    sets = list({(c.neg, c.chars): c for c in charsets}.values())
    explicit: Set[int] = set()
    for c in sets:
        explicit |= c.chars
    sig: Dict[Tuple[bool, ...], Set[int]] = {}
    for cp in explicit:
        sig.setdefault(tuple(cp in c for c in sets), set()).add(cp)
    blocks = [CS(False, frozenset(v)) for v in sig.values()]
    blocks.append(CS(True, frozenset(explicit)))  # the rest of the alphabet
    return [b for b in blocks if b.witness() is not None]


class DFA:
    def __init__(self, nfas: List[NFA]):
        """Product automaton of several NFAs over a common partition (state = tuple of NFA state sets)."""
        self.nfas = nfas
        css = [cs for n in nfas for edges in n.edges.values() for cs, _ in edges]
        self.blocks = partition(css)
        self.reps = [b.witness() for b in self.blocks]
        self.start = tuple(_closure(n, [n.start]) for n in nfas)
        self.trans: Dict[Tuple, Dict[int, Tuple]] = {}
        work = [self.start]
        while work:
            st = work.pop()
            if st in self.trans:
                continue
            row: Dict[int, Tuple] = {}
            for bi, rep in enumerate(self.reps):
                nxt = []
                for n, ss in zip(nfas, st):
                    tgt = {t for s in ss for cs, t in n.edges[s] if rep in cs}
                    nxt.append(_closure(n, tgt))
                row[bi] = tuple(nxt)
            self.trans[st] = row
            work.extend(row.values())
            if len(self.trans) > 50000:
                raise Unsupported("DFA too large")

    def accepts(self, st: Tuple, i: int) -> bool:
        return self.nfas[i].accept in st[i]

    def dead(self, st: Tuple, i: int) -> bool:
        return not st[i]


def difference_witness(a: Parsed, b: Parsed) -> Optional[Tuple[str, str]]:
    """None if L(a) == L(b), else (shortest witness string, 'only-first' | 'only-second')."""
    dfa = DFA([a.nfa, b.nfa])
    seen = {dfa.start: ""}
    queue = [dfa.start]
    while queue:
        st = queue.pop(0)
        wa, wb = dfa.accepts(st, 0), dfa.accepts(st, 1)
        if wa != wb:
            return seen[st], ("only-first" if wa else "only-second")
        for bi, nxt in dfa.trans[st].items():
            if nxt not in seen and (nxt[0] or nxt[1]):
                seen[nxt] = seen[st] + chr(dfa.reps[bi])
                queue.append(nxt)
    return None


def words(p: Parsed, limit: int = 2000) -> Optional[List[str]]:
    """All representative words if the language is finite up to case/Unicode variants: enumerates *every* string of
    the language when all blocks are small; returns None when the language is infinite."""
    dfa = DFA([p.nfa])
    # detect cycles on live states
    live = _live_states(dfa)
    color: Dict[Tuple, int] = {}

    def cyc(st) -> bool:
        color[st] = 1
        for nxt in dfa.trans[st].values():
            if nxt in live:
                if color.get(nxt) == 1 or (color.get(nxt) is None and cyc(nxt)):
                    return True
        color[st] = 2
        return False

    if dfa.start in live and cyc(dfa.start):
        return None
    out: List[str] = []

    def rec(st, prefix: str) -> None:
        if len(out) > limit:
            raise Unsupported("finite language too large")
        if dfa.accepts(st, 0):
            out.append(prefix)
        for bi, nxt in dfa.trans[st].items():
            if nxt in live:
                block = dfa.blocks[bi]
                if block.neg or len(block.chars) > 64:
                    raise Unsupported("finite language over a huge character class")
                for cp in sorted(block.chars):
                    rec(nxt, prefix + chr(cp))

    if dfa.start in live:
        rec(dfa.start, "")
    return sorted(out)


def _live_states(dfa: DFA) -> Set[Tuple]:
    """States from which acceptance (of automaton 0) is reachable."""
    rev: Dict[Tuple, Set[Tuple]] = {}
    for st, row in dfa.trans.items():
        for nxt in row.values():
            rev.setdefault(nxt, set()).add(st)
    live = {st for st in dfa.trans if dfa.accepts(st, 0)}
    work = list(live)
    while work:
        s = work.pop()
        for p in rev.get(s, ()):
            if p not in live:
                live.add(p)
                work.append(p)
    return live


def first_chars(p: Parsed) -> CS:
    dfa = DFA([p.nfa])
    live = _live_states(dfa)
    out = EMPTY
    for bi, nxt in dfa.trans[dfa.start].items():
        if nxt in live:
            out = out.union(dfa.blocks[bi])
    return out


def extension_chars(p: Parsed) -> CS:
    """Characters c such that some accepted word w has an accepted continuation starting with c (w, w c ... in L)."""
    dfa = DFA([p.nfa])
    live = _live_states(dfa)
    out = EMPTY
    for st, row in dfa.trans.items():
        if dfa.accepts(st, 0):
            for bi, nxt in row.items():
                if nxt in live:
                    out = out.union(dfa.blocks[bi])
    return out


def alphabet(p: Parsed) -> CS:
    """All characters that occur in some word of the language."""
    dfa = DFA([p.nfa])
    live = _live_states(dfa)
    reach = {dfa.start}
    work = [dfa.start]
    while work:
        s = work.pop()
        for nxt in dfa.trans[s].values():
            if nxt not in reach:
                reach.add(nxt)
                work.append(nxt)
    out = EMPTY
    for st in reach:
        for bi, nxt in dfa.trans[st].items():
            if nxt in live:
                out = out.union(dfa.blocks[bi])
    return out


def matches_empty(p: Parsed) -> bool:
    return p.nfa.accept in _closure(p.nfa, [p.nfa.start])


def inclusion_witness(a: Parsed, b: Parsed) -> Optional[str]:
    """None if L(a) is a subset of L(b), else a shortest string in L(a) - L(b)."""
    dfa = DFA([a.nfa, b.nfa])
    seen = {dfa.start: ""}
    queue = [dfa.start]
    while queue:
        st = queue.pop(0)
        if dfa.accepts(st, 0) and not dfa.accepts(st, 1):
            return seen[st]
        for bi, nxt in dfa.trans[st].items():
            if nxt not in seen and nxt[0]:
                seen[nxt] = seen[st] + chr(dfa.reps[bi])
                queue.append(nxt)
    return None


def items_first_chars(items, flags: int, state) -> CS:
    """First characters of a regex fragment (sre items), ignoring zero-width anchors such as \\B."""
    cleaned = [it for it in items if it[0] is not _c.AT]
    nfa = NFA()
    _build(nfa, cleaned, flags, state, nfa.start, nfa.accept)
    return first_chars(Parsed("<fragment>", nfa, None, flags, state))
