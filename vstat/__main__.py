import sys

from .run import main

sys.exit(main())
