"""Sabotage self-test: rule-specific AST-level edits of the current tree, analysed through the in-memory overlay.

Every variant must be reported by the property's rules (exit-1 findings); a variant that is not reported is printed as
CHECKER-WEAKNESS (a weakness of the checker, never a violation of the repository).
"""
from __future__ import annotations

import ast
import os
from concurrent.futures import ProcessPoolExecutor
from dataclasses import dataclass, field
from pathlib import Path
from typing import Dict, List, Optional

from .report import AnalysisError


@dataclass
class Mutant:
    name: str
    overlay: Dict[str, str]
    expect: Optional[str] = None  # rule id prefix that must fire (None: any finding of the property)
    note: str = ""


def _offsets(src: str):
    lines = src.splitlines(keepends=True)
    starts = [0]
    for ln in lines:
        starts.append(starts[-1] + len(ln.encode("utf-8")))
    return starts


def node_span(src: str, node: ast.AST):
    """(start, end) character offsets of a node in src (ast columns are UTF-8 byte offsets)."""
    b = src.encode("utf-8")
    starts = _offsets(src)
    s = starts[node.lineno - 1] + node.col_offset
    e = starts[node.end_lineno - 1] + node.end_col_offset
    return len(b[:s].decode("utf-8")), len(b[:e].decode("utf-8"))


def replace_node_src(src: str, node: ast.AST, new_text: str) -> str:
    s, e = node_span(src, node)
    return src[:s] + new_text + src[e:]


def replace_text_once(src: str, old: str, new: str) -> str:
    if src.count(old) != 1:
        raise AnalysisError(f"sabotage: text {old!r} occurs {src.count(old)} times")
    return src.replace(old, new)


def delete_stmt(src: str, node: ast.stmt, replacement: str = "pass") -> str:
    """Replace a whole statement by `pass` (keeps indentation)."""
    return replace_node_src(src, node, replacement)


def _run_one(args):
    prop, repo, mutant = args
    from .run import run_rules

    try:
        ctx = run_rules(prop, "quick", Path(repo), overlay=mutant.overlay)
    except AnalysisError as err:
        return mutant.name, "error", f"{type(err).__name__}: {err}", []
    except Exception as err:  # pylint:disable=broad-except
        return mutant.name, "error", f"internal {type(err).__name__}: {err}", []
    rules = sorted({f.rule for f in ctx.findings})
    if not ctx.findings:
        return mutant.name, "missed", "", rules
    if mutant.expect and not any(r.startswith(mutant.expect) for r in rules):
        return mutant.name, "other-rule", f"expected {mutant.expect}", rules
    return mutant.name, "caught", "", rules


def run_selftest(prop: str, mod, repo: Path, base_ctx) -> dict:
    mutants: List[Mutant] = mod.mutants(base_ctx.model)
    for m in mutants:
        for rel, text in m.overlay.items():
            if rel.endswith(".py"):
                try:
                    ast.parse(text)
                except SyntaxError as err:
                    raise AnalysisError(f"sabotage variant {m.name} does not parse: {err}") from err
    jobs = [(prop, str(repo), m) for m in mutants]
    workers = min(16, os.cpu_count() or 4, max(1, len(jobs)))
    if workers > 1 and len(jobs) > 3:
        with ProcessPoolExecutor(max_workers=workers) as ex:
            results = list(ex.map(_run_one, jobs, chunksize=max(1, len(jobs) // (workers * 4))))
    else:
        results = [_run_one(j) for j in jobs]
    caught = [r for r in results if r[1] in ("caught", "other-rule")]
    missed = [f"{r[0]} ({r[1]} {r[2]})".strip() for r in results if r[1] in ("missed",)]
    errors = [f"{r[0]} ({r[2]})" for r in results if r[1] == "error"]
    return {
        "variants": len(mutants),
        "caught": len(caught),
        "missed": missed,
        "undecided": errors,  # the variant left the supported subset: the check says 'cannot decide' (exit 2), not 'fine'
        "by_rule": {r[0]: r[3] for r in results[:40]},
    }
