"""Sabotage self-test: rule-specific AST-level edits of the current tree, analysed through the in-memory overlay.

Every variant must be reported by the property's rules (exit-1 findings); a variant that is not reported is printed as
CHECKER-WEAKNESS (a weakness of the checker, never a violation of the repository).
"""
from __future__ import annotations

import ast
import os
from concurrent.futures import ProcessPoolExecutor
from dataclasses import dataclass, field
from pathlib import Path
from typing import Dict, List, Optional, Tuple

from .report import AnalysisError


@dataclass
class Mutant:
    name: str
    overlay: Dict[str, str]
    expect: Optional[str] = None  # rule id prefix that must fire (None: any finding of the property)
    note: str = ""


def _offsets(src: str):
    lines = src.splitlines(keepends=True)
    starts = [0]
    for ln in lines:
        starts.append(starts[-1] + len(ln.encode("utf-8")))
    return starts


def node_span(src: str, node: ast.AST):
    """(start, end) character offsets of a node in src (ast columns are UTF-8 byte offsets)."""
    b = src.encode("utf-8")
    starts = _offsets(src)
    s = starts[node.lineno - 1] + node.col_offset
    e = starts[node.end_lineno - 1] + node.end_col_offset
    return len(b[:s].decode("utf-8")), len(b[:e].decode("utf-8"))


def replace_node_src(src: str, node: ast.AST, new_text: str) -> str:
    s, e = node_span(src, node)
    return src[:s] + new_text + src[e:]


def replace_text_once(src: str, old: str, new: str) -> str:
    if src.count(old) != 1:
        raise AnalysisError(f"sabotage: text {old!r} occurs {src.count(old)} times")
    return src.replace(old, new)


def delete_stmt(src: str, node: ast.stmt, replacement: str = "pass") -> str:
    """Replace a whole statement by `pass` (keeps indentation)."""
    return replace_node_src(src, node, replacement)


def _run_one(args):
    prop, repo, mutant = args
    from .run import run_rules

    os.environ["VSTAT_WORKERS"] = os.environ.get("VSTAT_SELFTEST_INNER", "2")  # the variants themselves run in parallel
    os.environ["VSTAT_NO_CACHE_WRITE"] = "1"

    try:
        ctx = run_rules(prop, "quick", Path(repo), overlay=mutant.overlay)
    except AnalysisError as err:
        return mutant.name, "error", f"{type(err).__name__}: {err}", []
    except Exception as err:  # pylint:disable=broad-except
        return mutant.name, "error", f"internal {type(err).__name__}: {err}", []
    rules = sorted({f.rule for f in ctx.findings})
    if not ctx.findings:
        return mutant.name, "missed", "", rules
    if mutant.expect and not any(r.startswith(mutant.expect) for r in rules):
        return mutant.name, "other-rule", f"expected {mutant.expect}", rules
    return mutant.name, "caught", "", rules


def run_selftest(prop: str, mod, repo: Path, base_ctx) -> dict:
    mutants: List[Mutant] = (mod.mutants(base_ctx.model) if hasattr(mod, "mutants") else []) + seeded_mutants(prop, base_ctx.model)
    for m in mutants:
        for rel, text in m.overlay.items():
            if rel.endswith(".py"):
                try:
                    ast.parse(text)
                except SyntaxError as err:
                    raise AnalysisError(f"sabotage variant {m.name} does not parse: {err}") from err
    jobs = [(prop, str(repo), m) for m in mutants]
    workers = min(8, os.cpu_count() or 4, max(1, len(jobs)))
    if workers > 1 and len(jobs) > 3:
        with ProcessPoolExecutor(max_workers=workers) as ex:
            results = list(ex.map(_run_one, jobs, chunksize=max(1, len(jobs) // (workers * 4))))
    else:
        results = [_run_one(j) for j in jobs]
    caught = [r for r in results if r[1] in ("caught", "other-rule")]
    missed = [f"{r[0]} ({r[1]} {r[2]})".strip() for r in results if r[1] in ("missed",)]
    errors = [f"{r[0]} ({r[2]})" for r in results if r[1] == "error"]
    return {
        "variants": len(mutants),
        "caught": len(caught),
        "missed": missed,
        "undecided": errors,  # the variant left the supported subset: the check says 'cannot decide' (exit 2), not 'fine'
        "by_rule": {r[0]: r[3] for r in results[:40]},
    }


# ------------------------------------------------------------------------------------------------ seeded changes as self-test
def apply_unified_diff(read, diff_text: str) -> Optional[Dict[str, str]]:
    """Apply a `git diff` to file contents obtained through read(relpath). Returns {relpath: new text} or None if a hunk
    does not apply (the tree has moved on)."""
    import re

    files: Dict[str, List[str]] = {}
    cur: Optional[str] = None
    hunks: Dict[str, List[Tuple]] = {}
    lines = diff_text.splitlines(keepends=True)
    i = 0
    while i < len(lines):
        ln = lines[i]
        if ln.startswith("+++ "):
            path = ln[4:].strip()
            cur = path[2:] if path.startswith("b/") else path
            hunks.setdefault(cur, [])
        elif ln.startswith("@@") and cur is not None:
            m = re.match(r"@@ -(\d+)(?:,(\d+))? \+(\d+)(?:,(\d+))? @@", ln)
            if not m:
                return None
            old_start = int(m.group(1))
            body = []
            i += 1
            while i < len(lines) and not lines[i].startswith(("@@", "diff --git", "--- ", "+++ ")):
                if lines[i].startswith("\\"):
                    i += 1
                    continue
                body.append(lines[i])
                i += 1
            hunks[cur].append((old_start, body))
            continue
        i += 1
    out: Dict[str, str] = {}
    for path, hs in hunks.items():
        if path == "/dev/null":
            continue
        try:
            src = read(path).splitlines(keepends=True)
        except OSError:
            src = []
        offset = 0
        for old_start, body in hs:
            old = [b[1:] for b in body if b[:1] in (" ", "-")]
            new = [b[1:] for b in body if b[:1] in (" ", "+")]
            pos = old_start - 1 + offset
            found = None
            for delta in sorted(range(-40, 41), key=abs):
                p = pos + delta
                if 0 <= p <= len(src) - len(old) and [x.rstrip("\n") for x in src[p:p + len(old)]] == [x.rstrip("\n") for x in old]:
                    found = p
                    break
            if found is None:
                return None
            src[found:found + len(old)] = new
            offset += len(new) - len(old) + (found - pos)
        out[path] = "".join(src)
    return out


def seeded_mutants(prop: str, model) -> List[Mutant]:
    """The confirmed seeded changes (independent sub-agents) that this property's rules are on record as catching
    (meta.json `caught_by`, written from the last seed matrix), as overlay variants: a regression test of the checker.
    A seed that was written against this property but is caught by a neighbouring property's rules only is replayed there."""
    import json

    out: List[Mutant] = []
    base = Path(__file__).resolve().parent.parent / "seeded"
    if not base.is_dir():
        return out
    for d in sorted(base.iterdir()):
        meta = d / "meta.json"
        patch = d / "patch.diff"
        if not (meta.exists() and patch.exists()):
            continue
        try:
            m = json.loads(meta.read_text())
        except ValueError:
            continue
        targets = set(m.get("caught_by", [])) or {m.get("breaks_property")}
        if prop not in targets:
            continue
        ov = apply_unified_diff(model.read, patch.read_text(encoding="utf-8"))
        if ov is None:
            continue  # does not apply to this tree any more
        out.append(Mutant(f"seeded:{d.name}", {k: v for k, v in ov.items() if k.startswith("src/")}, note=m.get("needs_to_manifest", "")))
    return out
