"""Runner: `python -m vstat <Cxx> --tier quick|thorough [--repo DIR] [--replay FILE] [--no-selftest]`.

Exit codes: 0 all rule instances hold (known findings are listed), 1 VIOLATION, 2 ANALYSIS-ERROR (cannot decide).
"""
from __future__ import annotations

import argparse
import importlib
import json
import os
import sys
import time
import traceback
from pathlib import Path

from .report import AnalysisError, Ctx, load_known_findings, write_evidence, write_replay

PROPS = [f"C{n:02d}" for n in range(1, 21)]


def run_rules(prop: str, tier: str, repo: Path, overlay=None) -> Ctx:
    """Run all rules of one property on `repo` (+ overlay of in-memory file contents). Raises AnalysisError."""
    from .srcmodel import SrcModel

    ctx = Ctx(prop=prop, tier=tier, repo=repo)
    ctx.model = SrcModel(repo, overlay=overlay)
    ctx.units["files_parsed"] = len(ctx.model.modules)
    ctx.units["functions"] = len(ctx.model.functions)
    ctx.units["classes"] = len(ctx.model.classes)
    mod = importlib.import_module(f"vstat.rules.{prop.lower()}")
    try:
        mod.check(ctx)
    except AnalysisError as err:
        ctx.undecided.append(f"{type(err).__name__}: {err}")
    if ctx.undecided and not ctx.findings:
        raise AnalysisError("; ".join(ctx.undecided[:3]))
    if ctx.obligations == 0:
        raise AnalysisError(f"{prop}: no rule instance was matched - refusing to pass vacuously")
    return ctx


def main(argv=None) -> int:
    ap = argparse.ArgumentParser(prog="vstat")
    ap.add_argument("prop")
    ap.add_argument("--tier", default=os.environ.get("VERIF_TIER", "quick"), choices=["quick", "thorough"])
    ap.add_argument("--repo", default="/repo")
    ap.add_argument("--replay", default=None, help="print a replay file written by an earlier run and re-run the rule")
    ap.add_argument("--no-selftest", action="store_true")
    args = ap.parse_args(argv)
    prop = args.prop.upper()
    if prop not in PROPS:
        print(f"ANALYSIS-ERROR unknown property {prop}")
        return 2
    if args.replay:
        try:
            print(Path(args.replay).read_text(encoding="utf-8"))
        except OSError as err:
            print(f"ANALYSIS-ERROR cannot read replay file: {err}")
            return 2
    t0 = time.time()
    repo = Path(args.repo)
    try:
        mod = importlib.import_module(f"vstat.rules.{prop.lower()}")
    except ModuleNotFoundError:
        print(f"ANALYSIS-ERROR property={prop} rule not built (fail-closed stub)")
        return 2
    try:
        ctx = run_rules(prop, args.tier, repo)
        selftest = None
        if args.tier == "thorough" and not args.no_selftest:
            from .sabotage import run_selftest

            selftest = run_selftest(prop, mod, repo, ctx)
    except AnalysisError as err:
        print(f"ANALYSIS-ERROR property={prop} {type(err).__name__}: {err}")
        return 2
    except Exception:  # pylint:disable=broad-except
        traceback.print_exc()
        print(f"ANALYSIS-ERROR property={prop} internal error in the checker (see traceback)")
        return 2

    known = [k for k in load_known_findings() if k.get("status") == "known" and k.get("property") == prop]
    known_keys = {k["key"]: k for k in known}
    violations = []
    for f in ctx.findings:
        if f.key in known_keys:
            print(f"KNOWN-FINDING: property={prop} {known_keys[f.key]['what']} [{f.key}]")
        else:
            violations.append(f)
    extra = {}
    if selftest is not None:
        extra["selftest"] = selftest
    explanation = getattr(mod, "EXPLANATION", "static rules over the AST / grammar / schema tables of the current tree")
    wall = time.time() - t0
    if os.environ.get("VSTAT_NO_EVIDENCE"):
        ev = "(not written)"
    else:
        ev = write_evidence(ctx, explanation, wall, len(violations), exhaustive=getattr(mod, "EXHAUSTIVE", False), extra=extra)
    print(
        f"[{prop}] tier={args.tier} files={ctx.units.get('files_parsed')} functions={ctx.units.get('functions')} "
        f"obligations={ctx.obligations} discharged={ctx.discharged} cases={ctx.evaluations} "
        f"rules={json.dumps(ctx.rules_run, sort_keys=True)} wall={wall:.2f}s evidence={ev}"
    )
    if selftest is not None:
        print(f"[{prop}] selftest: {selftest['variants']} sabotage variants, {selftest['caught']} reported, "
              f"{len(selftest['missed'])} CHECKER-WEAKNESS")
        for m in selftest["missed"]:
            print(f"CHECKER-WEAKNESS property={prop} variant={m}")
    for u in ctx.undecided[:3]:
        print(f"ANALYSIS-INCOMPLETE property={prop} a part of the rules could not be decided: {u[:300]}")
    if violations:
        for n, f in enumerate(violations[:12], 1):
            path = write_replay(prop, n, f) if not os.environ.get("VSTAT_NO_EVIDENCE") else "-"
            where = f"{f.file}:{f.line}" if f.file else "-"
            print(f"  {f.rule} {where} {f.function or ''}: {f.what[:700]}")
            print(f"VIOLATION property={prop} replay={path}")
        if len(violations) > 12:
            print(f"  ... and {len(violations) - 12} further failing rule instances (rules: {sorted({f.rule for f in violations})})")
        return 1
    return 0


if __name__ == "__main__":
    sys.exit(main())
