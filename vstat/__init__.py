"""vstat - static rules deciding properties C01-C20 of Hochfrequenz/ahbicht from its source (see /verif/DESIGN.md)."""
